// C14 -- encoders/decoders are mutual inverses and agree with their standards.
// rapidcheck driver over shims/codec.c (one build variant per executable).
//
// Oracles (all written here, none calls liblcb):
//   Base64   RFC 4648 section 4 reference (24-bit group formulation) + OpenSSL EVP_EncodeBlock
//   hex      lower-case two-digit-per-byte reference
//   decimal  std::to_string on (unsigned) long long; __int128 only to classify magnitudes
//   hex int  own formatter of the magnitude / two's complement pattern
//   XML      five-entity escaping / single-pass left-to-right unescaping
//   URL      RFC 3986 percent-encoding reference encoder (unreserved kept, rest %HH)
//   CRC-32   bit-serial Rocksoft model, parameters = the catalogue lines quoted in crc32.h
// Every reference is anchored on published vectors in main() (exit 2 if an anchor fails).
#include "pbt.hpp"
#include "../shims/codec_abi.h"
#include <openssl/evp.h>
#include <cerrno>
#include <algorithm>

using namespace pbt;
typedef __int128 i128;
typedef unsigned __int128 u128;

#define REQ(cond, msg) PBT_REQUIRE(cond, msg)
#define CHK(v)                                                                 \
  do {                                                                         \
    Verdict _v = (v);                                                          \
    if (!_v.ok) return _v;                                                     \
  } while (0)

// ------------------------------------------------------------------ shim call
struct Req {
  int op = 0, sub = 0, flags = 0;
  uint64_t num = 0;
  Bytes in;
  uint32_t cap = 0, slack = 0;
  std::vector<uint32_t> parts;
  uint8_t fill = 0xa5;
};
static c14_out call(const Req &r) {
  static c14_in in;
  c14_out out;
  memset(&in, 0, offsetof(c14_in, in));
  in.op = r.op; in.sub = r.sub; in.flags = r.flags; in.fill = r.fill; in.num = r.num;
  in.in_len = (uint32_t)std::min<size_t>(r.in.size(), C14_MAXIN);
  if (in.in_len) memcpy(in.in, r.in.data(), in.in_len);
  in.cap = std::min<uint32_t>(r.cap, C14_MAXOUT - 8);
  in.slack = std::min<uint32_t>(r.slack, 8);
  in.nparts = (uint32_t)std::min<size_t>(r.parts.size(), C14_MAXPARTS);
  for (uint32_t i = 0; i < in.nparts; i++) in.parts[i] = r.parts[i];
  c14_call(&in, &out);
  return out;
}
static Bytes S2B(const std::string &s) { return Bytes(s.begin(), s.end()); }
static std::string show(const uint8_t *p, size_t n) {
  std::string o = "\"";
  for (size_t i = 0; i < n && i < 80; i++) {
    char b[8];
    if (p[i] >= 0x20 && p[i] < 0x7f && p[i] != '"' && p[i] != '\\') o.push_back((char)p[i]);
    else { snprintf(b, sizeof b, "\\x%02x", p[i]); o += b; }
  }
  return o + (n > 80 ? "\"..." : "\"");
}
static std::string show(const std::string &s) { return show((const uint8_t *)s.data(), s.size()); }
static std::string show(const Bytes &b) { return show(b.data(), b.size()); }

// stray bytes: outside the buffer (canary bands; ASan aborts instead) ...
static Verdict guards(const c14_out &o, const char *what) {
  REQ(o.guard_lo == 0, what << ": " << (int)o.guard_lo << " byte(s) written BEFORE the output buffer");
  REQ(o.guard_hi == 0, what << ": " << (int)o.guard_hi << " byte(s) written PAST the end of the output buffer (size given = reported need)");
  return Verdict::pass();
}
// ... and inside it: bytes in [from, out_len) must still hold the fill byte
static Verdict untouched(const c14_out &o, size_t from, uint8_t fill, const char *what) {
  for (size_t i = from; i < o.out_len; i++)
    REQ(o.out[i] == fill, what << ": byte " << i << " of the output buffer was written although the reported length is smaller");
  return Verdict::pass();
}
static Verdict same(const c14_out &o, const uint8_t *exp, size_t n, const char *what) {
  REQ(o.out_len >= n, what << ": output capacity " << o.out_len << " < expected length " << n);
  REQ(n == 0 || memcmp(o.out, exp, n) == 0, what << ": output " << show(o.out, n) << " != expected " << show(exp, n));
  return Verdict::pass();
}
static Verdict same(const c14_out &o, const std::string &e, const char *w) { return same(o, (const uint8_t *)e.data(), e.size(), w); }
static Verdict same(const c14_out &o, const Bytes &e, const char *w) { return same(o, e.data(), e.size(), w); }

// ------------------------------------------------------------------ case
struct Case {
  int sub = 0, flags = 0;
  uint64_t num = 0;
  Bytes data, aux;
  std::vector<long long> iv;
  std::string note;  // human-readable comment line, ignored by parse
  std::string ser() const {
    Writer w;
    if (!note.empty()) w.o << "#" << note << "\n";
    w.i("sub", sub).i("flags", flags).u("num", num).b("data", data).b("aux", aux).iv("iv", iv);
    return w.str();
  }
  static Case parse(const std::string &t) {
    Reader r(t);
    Case c;
    c.sub = (int)r.i("sub"); c.flags = (int)r.i("flags"); c.num = r.u("num");
    c.data = r.b("data"); c.aux = r.b("aux"); c.iv = r.iv("iv");
    return c;
  }
};
void showValue(const Case &c, std::ostream &os) { os << c.ser(); }

// ================================================================== Base64
static const char B64T[] = "ABCDEFGHIJKLMNOPQRSTUVWXYZabcdefghijklmnopqrstuvwxyz0123456789+/";
static bool b64_alpha(uint8_t c) {
  return (c >= 'A' && c <= 'Z') || (c >= 'a' && c <= 'z') || (c >= '0' && c <= '9') || c == '+' || c == '/';
}
// RFC 4648 section 4: 24-bit groups, 6-bit indices, '=' padding
static std::string b64_ref(const Bytes &d) {
  std::string o;
  size_t i = 0, n = d.size();
  for (; i + 3 <= n; i += 3) {
    uint32_t g = ((uint32_t)d[i] << 16) | ((uint32_t)d[i + 1] << 8) | d[i + 2];
    o += B64T[(g >> 18) & 63]; o += B64T[(g >> 12) & 63]; o += B64T[(g >> 6) & 63]; o += B64T[g & 63];
  }
  if (n - i == 1) {
    uint32_t g = (uint32_t)d[i] << 16;
    o += B64T[(g >> 18) & 63]; o += B64T[(g >> 12) & 63]; o += "==";
  } else if (n - i == 2) {
    uint32_t g = ((uint32_t)d[i] << 16) | ((uint32_t)d[i + 1] << 8);
    o += B64T[(g >> 18) & 63]; o += B64T[(g >> 12) & 63]; o += B64T[(g >> 6) & 63]; o += "=";
  }
  return o;
}

// decode `text` with base64_decode using the need the function reports itself
static Verdict b64_decode_chk(const Bytes &text, const Bytes &d, const char *what, bool may_end_flush) {
  Req r;
  r.op = C14_B64_DEC; r.in = text; r.cap = 0;
  c14_out o = call(r);
  CHK(guards(o, what));
  if (d.empty()) {
    REQ(o.rc == 0 && o.size_ret_set && o.size_ret == 0, what << ": empty message: rc=" << o.rc << " size=" << o.size_ret);
    return Verdict::pass();
  }
  REQ(o.rc == ENOBUFS && o.size_ret_set, what << ": zero-size dst: rc=" << o.rc << " (ENOBUFS expected) size_ret_set=" << o.size_ret_set);
  REQ(o.size_ret >= d.size() && o.size_ret <= text.size() + 3, what << ": reported need " << o.size_ret << " cannot hold the " << d.size() << " decoded bytes");
  r.cap = (uint32_t)o.size_ret;
  // the terminator lands at dst[decoded]; decoded == need only when nothing is dropped from the last group
  if (may_end_flush && known("base64_decode_nul_past_need")) { excluded("base64_decode_nul_past_need"); r.slack = 1; }
  o = call(r);
  REQ(o.rc == 0, what << ": rc=" << o.rc << " with dst_size == the need reported by the function (" << r.cap << ")");
  REQ(o.size_ret_set && o.size_ret == d.size(), what << ": reported size " << o.size_ret << " != " << d.size() << " bytes decoded");
  CHK(same(o, d, what));
  CHK(guards(o, what));
  return Verdict::pass();
}

static Verdict run_b64(const Case &c) {
  const Bytes &d = c.data;
  size_t n = d.size();
  std::string ref = b64_ref(d);
  {
    std::vector<unsigned char> e(4 * ((n + 2) / 3) + 4);
    int l = EVP_EncodeBlock(e.data(), d.data(), (int)n);
    REQ(l == (int)ref.size() && memcmp(e.data(), ref.data(), ref.size()) == 0, "ORACLE DISAGREEMENT: RFC 4648 reference vs OpenSSL EVP_EncodeBlock");
  }
  size_t pad = (3 - n % 3) % 3;
  label(n == 0 ? "len_0" : n % 3 == 0 ? "len_mod3_0" : n % 3 == 1 ? "len_mod3_1" : "len_mod3_2");
  if (n >= 48) label("len_ge_48");

  // ---- encode: need reported for a zero-size destination
  Req r;
  r.op = C14_B64_ENC; r.in = d; r.cap = 0;
  c14_out o = call(r);
  CHK(guards(o, "base64_encode(dst_size=0)"));
  if (n == 0) REQ(o.rc == 0 && o.size_ret_set && o.size_ret == 0, "base64_encode(empty): rc=" << o.rc << " size=" << o.size_ret);
  else {
    REQ(o.rc == ENOBUFS, "base64_encode(dst_size=0): rc=" << o.rc << ", ENOBUFS expected");
    REQ(o.size_ret_set && o.size_ret == ref.size(), "base64_encode: reported need " << o.size_ret << " != RFC 4648 length " << ref.size());
  }
  // ---- encode into exactly the reported size
  r.cap = (uint32_t)ref.size();
  if (n > 0 && known("base64_encode_nul_past_need")) { excluded("base64_encode_nul_past_need"); r.slack = 1; }
  if (c.flags & 1) { r.flags |= C14_F_NULLSZ; label("enc_null_size_ret"); }
  o = call(r);
  REQ(o.rc == 0, "base64_encode: rc=" << o.rc << " with dst_size == reported need " << r.cap);
  if (!(c.flags & 1)) REQ(o.size_ret_set && o.size_ret == ref.size(), "base64_encode: enc_size_ret " << o.size_ret << " != " << ref.size());
  CHK(same(o, ref, "base64_encode vs RFC 4648"));
  CHK(guards(o, "base64_encode"));

  // ---- decode inverts (canonical padded text, and the unpadded form the decoder has tail cases for)
  CHK(b64_decode_chk(S2B(ref), d, "base64_decode(encode(x))", pad == 0));
  if (pad) {
    label("unpadded_decode");
    CHK(b64_decode_chk(S2B(ref.substr(0, ref.size() - pad)), d, "base64_decode(unpadded)", false));
  }

  // ---- tolerant path: interleave non-alphabet bytes at the planned positions
  std::vector<std::pair<size_t, uint8_t>> plan;
  for (size_t i = 0; i + 1 < c.iv.size(); i += 2) {
    uint8_t ch = (uint8_t)c.iv[i + 1];
    if (b64_alpha(ch)) continue;  // not junk
    plan.push_back({(size_t)std::min<long long>(std::max<long long>(c.iv[i], 0), (long long)ref.size()), ch});
  }
  std::stable_sort(plan.begin(), plan.end(), [](const std::pair<size_t, uint8_t> &a, const std::pair<size_t, uint8_t> &b) { return a.first < b.first; });
  Bytes text;
  {
    size_t k = 0;
    for (size_t i = 0; i <= ref.size(); i++) {
      while (k < plan.size() && plan[k].first == i) text.push_back(plan[k++].second);
      if (i < ref.size()) text.push_back((uint8_t)ref[i]);
    }
  }
  bool in_pad = false, at_end = false, eq_junk = false;
  for (auto &p : plan) {
    if (pad && p.first >= ref.size() - pad && p.first < ref.size()) in_pad = true;
    if (pad == 2 && p.first == ref.size() - 1) label("junk_between_pad_chars");
    if (p.first == ref.size()) at_end = true;
    if (p.second == '=') eq_junk = true;
  }
  label(plan.empty() ? "junk_none" : plan.size() == 1 ? "junk_1" : "junk_many");
  if (in_pad) label("junk_in_padding_run");
  if (at_end) label("junk_after_end");
  if (eq_junk) label("junk_is_equals_sign");
  if (n % 3 != 0 || !plan.empty()) nontrivial_cur();

  Bytes filt;  // the Base64 symbols of text (independent filter: alphabet membership)
  for (uint8_t ch : text) if (b64_alpha(ch)) filt.push_back(ch);
  r = Req();
  r.op = C14_B64_EN_COPY; r.in = text; r.cap = (uint32_t)text.size();
  o = call(r);
  REQ(o.rc == 0, "base64_en_copy: rc=" << o.rc);
  REQ(o.size_ret_set && o.size_ret == filt.size(), "base64_en_copy: new_size " << o.size_ret << " != " << filt.size() << " alphabet symbols");
  CHK(same(o, filt, "base64_en_copy"));
  CHK(untouched(o, filt.size(), r.fill, "base64_en_copy"));
  CHK(guards(o, "base64_en_copy"));

  r = Req();
  r.op = C14_B64_DEC_FMT; r.in = text; r.cap = (uint32_t)text.size();  // the function demands dst_size >= src_size
  o = call(r);
  if (o.rc == ENOBUFS && o.size_ret_set && o.size_ret > r.cap) {
    label("dec_fmt_second_call");
    r.cap = (uint32_t)o.size_ret;
    o = call(r);
  }
  REQ(o.rc == 0, "base64_decode_fmt: rc=" << o.rc << " on " << show(text));
  REQ(o.size_ret_set && o.size_ret == n, "base64_decode_fmt: size " << o.size_ret << " != " << n << " on " << show(text));
  CHK(same(o, d, "base64_decode_fmt(interleave(encode(x)))"));
  CHK(guards(o, "base64_decode_fmt"));
  return Verdict::pass();
}

static rc::Gen<uint8_t> genJunk() {
  return rc::gen::map(rc::gen::tuple(range<int>(0, 9), rc::gen::resize(100, rc::gen::arbitrary<uint8_t>())), [](const std::tuple<int, uint8_t> &t) {
    int k = std::get<0>(t);
    uint8_t b = std::get<1>(t);
    if (k < 5) return (uint8_t)("\r\n\t "[b & 3]);
    if (k == 5) return (uint8_t)'=';
    if (k == 6) return (uint8_t)("@#$%-_.,:;!*"[b % 12]);
    return b64_alpha(b) ? (uint8_t)(b | 0x80) : b;
  });
}
static rc::Gen<Case> genB64() {
  return rc::gen::exec([]() {
    Case c;
    int lk = *range<int>(0, 9);
    size_t n = lk < 6 ? *range<size_t>(0, 96) : lk < 8 ? *range<size_t>(0, 12) : lk < 9 ? *range<size_t>(60, 70) : *range<size_t>(97, 300);
    c.data = *bytes_len(n);
    int fk = *range<int>(0, 7);
    if (fk == 0) std::fill(c.data.begin(), c.data.end(), 0x00);
    else if (fk == 1) std::fill(c.data.begin(), c.data.end(), 0xff);
    size_t enc = 4 * ((n + 2) / 3);
    int jk = *range<int>(0, 9);
    size_t cnt = jk < 2 ? 0 : jk < 4 ? 1 : *range<size_t>(2, 12);
    for (size_t i = 0; i < cnt; i++) {
      long long pos = (*range<int>(0, 2) == 0) ? (long long)enc - *range<int>(0, 3) : (long long)*range<size_t>(0, enc);
      if (pos < 0) pos = 0;
      c.iv.push_back(pos);
      c.iv.push_back(*genJunk());
    }
    c.flags = *range<int>(0, 3) == 0 ? 1 : 0;
    return c;
  });
}

// ================================================================== hex
static std::string hex_ref(const Bytes &d) {
  std::string o;
  for (uint8_t b : d) { char t[4]; snprintf(t, sizeof t, "%02x", b); o += t; }
  return o;
}
static Verdict run_hex(const Case &c) {
  const Bytes &d = c.data;
  size_t n = d.size();
  int casing = c.sub % 3, sep = (c.sub / 3) % 4;
  uint32_t extra = (uint32_t)(c.num % 12);
  std::string href = hex_ref(d);
  Req r;
  c14_out o;
  if (n == 0) {
    // documented special form ("is a = 0?"): an empty value is printed as zeros; not a round trip
    label("empty_bin");
    r.op = C14_BIN2HEX; r.in = d; r.flags = C14_F_AUTO; r.cap = 2 + extra;
    o = call(r);
    REQ(o.rc == 0 && o.size_ret_set && o.size_ret == 2 && o.out[0] == '0' && o.out[1] == '0', "cvt_bin2hex(empty, auto): rc=" << o.rc << " size=" << o.size_ret);
    CHK(guards(o, "cvt_bin2hex(empty)"));
    return Verdict::pass();
  }
  label(casing == 0 ? "case_lower" : casing == 1 ? "case_upper" : "case_mixed");
  label(sep == 0 ? "sep_none" : sep == 1 ? "sep_colon" : sep == 2 ? "sep_space4" : "sep_dash_nl");
  if (extra) label("padded_buffer");
  if (casing || sep || extra) nontrivial_cur();

  // ---- bin -> hex, size taken from the data
  r.op = C14_BIN2HEX; r.in = d; r.flags = C14_F_AUTO; r.cap = 2;
  o = call(r);
  CHK(guards(o, "cvt_bin2hex(hex_size=2)"));
  if (n > 1) {
    REQ(o.rc == EOVERFLOW && o.size_ret_set && o.size_ret == 2 * n, "cvt_bin2hex(hex_size=2): rc=" << o.rc << " need=" << o.size_ret << ", EOVERFLOW with need " << 2 * n << " expected");
    CHK(untouched(o, 0, r.fill, "cvt_bin2hex(too small)"));
  }
  r.cap = (uint32_t)(2 * n);
  o = call(r);
  REQ(o.rc == 0, "cvt_bin2hex: rc=" << o.rc << " with hex_size == reported need");
  REQ(o.size_ret_set && o.size_ret == 2 * n, "cvt_bin2hex: hex_size_ret " << o.size_ret << " != " << 2 * n);
  CHK(same(o, href, "cvt_bin2hex"));
  CHK(guards(o, "cvt_bin2hex"));
  Bytes lib_hex(o.out, o.out + 2 * n);
  if (extra) {
    r.cap = (uint32_t)(2 * n + extra);
    o = call(r);
    REQ(o.rc == 0 && o.size_ret_set && o.size_ret == 2 * n, "cvt_bin2hex(auto, roomy): rc=" << o.rc << " size=" << o.size_ret);
    CHK(same(o, href, "cvt_bin2hex(auto, roomy)"));
    REQ(o.out[2 * n] == 0, "cvt_bin2hex(auto, roomy): no terminator after the digits");
    CHK(untouched(o, 2 * n + 1, r.fill, "cvt_bin2hex(auto, roomy)"));
    CHK(guards(o, "cvt_bin2hex(auto, roomy)"));
    // ---- fill mode: the rest of the buffer (whole digit pairs) is '0'
    r.flags = 0;
    o = call(r);
    size_t padz = extra & ~(size_t)1;
    REQ(o.rc == 0 && o.size_ret_set && o.size_ret == 2 * n + padz, "cvt_bin2hex(fill): rc=" << o.rc << " size=" << o.size_ret << " != " << 2 * n + padz);
    CHK(same(o, href + std::string(padz, '0'), "cvt_bin2hex(fill)"));
    if (extra & 1) REQ(o.out[2 * n + padz] == 0, "cvt_bin2hex(fill): no terminator in the odd last byte");
    CHK(guards(o, "cvt_bin2hex(fill)"));
  }

  // ---- hex -> bin on a restyled text
  std::string text;
  for (size_t i = 0; i < n; i++) {
    for (int k = 0; k < 2; k++) {
      char ch = href[2 * i + k];
      bool up = casing == 1 || (casing == 2 && ((d[i] >> (k ? 1 : 5)) & 1));
      text.push_back(up ? (char)toupper(ch) : ch);
    }
    if (sep == 1 && i + 1 < n) text.push_back(':');
    if (sep == 2 && (i & 3) == 3) text.push_back(' ');
    if (sep == 3) { if (i + 1 < n) text.push_back('-'); else text.push_back('\n'); }
  }
  r = Req();
  r.op = C14_HEX2BIN; r.in = S2B(text); r.cap = (uint32_t)std::max<size_t>(1, text.size() / 2);  // the function demands bin_size >= hex_size/2
  o = call(r);
  REQ(o.rc == 0, "cvt_hex2bin: rc=" << o.rc << " on " << show(text));
  REQ(o.size_ret_set && o.size_ret == n, "cvt_hex2bin: bin_size_ret " << o.size_ret << " != " << n << " on " << show(text));
  CHK(same(o, d, "cvt_hex2bin(restyle(bin2hex(x)))"));
  CHK(untouched(o, n, r.fill, "cvt_hex2bin"));
  CHK(guards(o, "cvt_hex2bin"));
  // round trip through the library's own text
  r.in = lib_hex; r.cap = (uint32_t)n;
  o = call(r);
  REQ(o.rc == 0 && o.size_ret_set && o.size_ret == n, "cvt_hex2bin(cvt_bin2hex(x)): rc=" << o.rc << " size=" << o.size_ret);
  CHK(same(o, d, "cvt_hex2bin(cvt_bin2hex(x))"));
  CHK(guards(o, "cvt_hex2bin(cvt_bin2hex(x))"));
  if (extra) {
    // auto_out_size: whole output initialised, size = buffer size
    r.in = S2B(text); r.flags = C14_F_AUTO; r.cap = (uint32_t)(std::max<size_t>(n, text.size() / 2) + extra);
    o = call(r);
    REQ(o.rc == 0 && o.size_ret_set && o.size_ret == r.cap, "cvt_hex2bin(auto_out_size): rc=" << o.rc << " size=" << o.size_ret << " != buffer size " << r.cap);
    Bytes e = d;
    e.resize(r.cap, 0);
    CHK(same(o, e, "cvt_hex2bin(auto_out_size)"));
    CHK(guards(o, "cvt_hex2bin(auto_out_size)"));
  }
  return Verdict::pass();
}
static rc::Gen<Case> genHex() {
  return rc::gen::exec([]() {
    Case c;
    int lk = *range<int>(0, 9);
    size_t n = lk == 0 ? 0 : lk < 7 ? *range<size_t>(1, 32) : lk < 9 ? *range<size_t>(1, 4) : *range<size_t>(33, 200);
    c.data = *bytes_len(n);
    c.sub = *range<int>(0, 11);
    c.num = *range<int>(0, 2) == 0 ? 0 : *range<uint64_t>(1, 11);
    return c;
  });
}

// ================================================================== integers <-> text
struct TI { const char *name; int bits; bool sg; };
static TI TYPES[C14_T_COUNT] = {{"usize", 64, false}, {"u8", 8, false}, {"u16", 16, false}, {"u32", 32, false}, {"u64", 64, false},
                                {"ssize", 64, true},  {"s8", 8, true},  {"s16", 16, true},  {"s32", 32, true},  {"s64", 64, true}};
static uint64_t tmask(int bits) { return bits >= 64 ? ~0ULL : ((1ULL << bits) - 1); }
// canonical value of the low `bits` of pattern
static i128 canon(const TI &t, uint64_t pat) {
  uint64_t u = pat & tmask(t.bits);
  if (!t.sg) return (i128)u;
  if (u >> (t.bits - 1)) return (i128)u - ((i128)1 << t.bits);
  return (i128)u;
}
static uint64_t pat_of(i128 v) { return (uint64_t)(int64_t)v; }  // 64-bit two's complement (sign extended)
static std::string dec_ref(const TI &t, i128 v) {
  return t.sg ? std::to_string((long long)v) : std::to_string((unsigned long long)v);
}
static u128 mag(i128 v) { return v < 0 ? (u128)(-v) : (u128)v; }
static int pow10_exp(u128 m) {  // k >= 1 if m == 10^k, else 0
  int k = 0;
  if (m < 10) return 0;
  while (m % 10 == 0) { m /= 10; k++; }
  return m == 1 ? k : 0;
}

static Verdict run_num(const Case &c) {
  REQ(c.sub >= 0 && c.sub < C14_T_COUNT, "bad type index");
  const TI &t = TYPES[c.sub];
  i128 v = canon(t, c.num);
  uint64_t pat = pat_of(v);
  std::string ref = dec_ref(t, v);
  bool ustr = c.flags & 1, nullsz = c.flags & 2, shortcap = c.flags & 4;
  int p10 = pow10_exp(mag(v));
  i128 tmin = t.sg ? -((i128)1 << (t.bits - 1)) : 0, tmax = t.sg ? ((i128)1 << (t.bits - 1)) - 1 : (i128)tmask(t.bits);
  bool is_min = t.sg && v == tmin, is_max = v == tmax;
  bool near_p10 = pow10_exp(mag(v) + 1) || (mag(v) > 1 && pow10_exp(mag(v) - 1));
  std::string fn = std::string(t.name) + (ustr ? "2ustr" : "2str");
  label(std::string("type_") + t.name);
  if (ustr) label("flavour_uint8");
  if (v == 0) label("zero");
  if (p10) label(v < 0 ? "neg_pow10" : "pow10");
  if (near_p10) label("pow10_pm1");
  if (is_min) label("signed_min");
  if (is_max) label("max");
  if (v < 0) label("negative");
  if (p10 || near_p10 || is_min || is_max || v == 0 || (t.sg && (v == tmin + 1 || v == tmax - 1)) || (!t.sg && v == tmax - 1)) nontrivial_cur();

  bool skip_fmt = false;
  if (p10 && known("num2str_pow10")) { excluded("num2str_pow10"); skip_fmt = true; }
  else if (is_min && known("snum2str_signed_min")) { excluded("snum2str_signed_min"); skip_fmt = true; }
  Req r;
  c14_out o;
  if (!skip_fmt) {
    // need reported for the smallest legal buffer (1 byte: no number fits together with its terminator)
    r.op = C14_NUM2STR; r.sub = c.sub; r.flags = ustr ? C14_F_USTR : 0; r.num = pat; r.cap = 1;
    o = call(r);
    CHK(guards(o, (fn + "(buf_size=1)").c_str()));
    REQ(o.rc == ENOSPC, fn << "(" << ref << ", buf_size=1): rc=" << o.rc << ", ENOSPC expected");
    REQ(o.size_ret_set && o.size_ret == ref.size() + 1, fn << "(" << ref << "): reported need " << o.size_ret << " != " << ref.size() + 1 << " (" << ref.size() << " characters + terminator)");
    CHK(untouched(o, 0, r.fill, (fn + "(buf_size=1)").c_str()));
    uint32_t need = (uint32_t)o.size_ret;
    if (shortcap && need > 2) {
      label("cap_need_minus_1");
      r.cap = need - 1;
      o = call(r);
      CHK(guards(o, (fn + "(need-1)").c_str()));
      REQ(o.rc == ENOSPC && o.size_ret_set && o.size_ret == need, fn << "(" << ref << ", buf_size=need-1): rc=" << o.rc << " size=" << o.size_ret);
    }
    // format into exactly the reported need
    r.cap = need;
    if (nullsz) { r.flags |= C14_F_NULLSZ; label("null_size_ret"); }
    o = call(r);
    REQ(o.rc == 0, fn << "(" << ref << "): rc=" << o.rc << " with buf_size == reported need " << need);
    if (!nullsz) REQ(o.size_ret_set && o.size_ret == ref.size(), fn << "(" << ref << "): reported length " << o.size_ret << " != " << ref.size() << "; text " << show(o.out, o.out_len));
    REQ(o.out_len == ref.size() + 1 && memcmp(o.out, ref.data(), ref.size()) == 0 && o.out[ref.size()] == 0,
        fn << "(" << ref << "): text " << show(o.out, o.out_len) << " != canonical decimal " << show(ref) << " + NUL");
    CHK(guards(o, fn.c_str()));
  }
  // parse the canonical text back (exact-length buffer, no terminator)
  r = Req();
  r.op = C14_STR2NUM; r.sub = c.sub; r.flags = ustr ? C14_F_USTR : 0; r.in = S2B(ref);
  o = call(r);
  REQ(o.val == pat, (ustr ? "ustr2" : "str2") << t.name << "(" << show(ref) << ") = " << (t.sg ? std::to_string((long long)o.val) : std::to_string((unsigned long long)o.val)) << " != " << ref);
  return Verdict::pass();
}

// value generator (inside gen::exec): pattern for a type, edge-biased
static uint64_t pick_value(const TI &t) {
  u128 maxmag = t.sg ? ((u128)1 << (t.bits - 1)) : (u128)tmask(t.bits);
  int maxk = 0;
  for (u128 p = 10; p <= maxmag; p *= 10) maxk++;
  int kind = *range<int>(0, 11);
  bool neg = t.sg && *range<int>(0, 1);
  u128 m = 0;
  switch (kind) {
  case 0: m = *range<uint64_t>(0, 11); break;
  case 1: case 2: case 3: case 4: case 5: {
    int k = *range<int>(1, std::max(1, maxk));
    m = 1;
    for (int i = 0; i < k; i++) m *= 10;
    int dl = *rc::gen::element<int>(-1, 0, 0, 1);
    m = (u128)((i128)m + dl);
    break;
  }
  case 6: {
    int e = *range<int>(0, 5);
    if (!t.sg) { m = e < 3 ? maxmag - (unsigned)e : (unsigned)(e - 3); neg = false; }
    else if (e == 0) { m = maxmag; neg = true; }          // minimum
    else if (e == 1) { m = maxmag - 1; neg = true; }      // minimum + 1
    else if (e == 2) { m = maxmag - 1; neg = false; }     // maximum
    else if (e == 3) { m = maxmag - 2; neg = false; }
    else { m = 0; }
    break;
  }
  case 7: {
    int j = *range<int>(0, t.bits - 1);
    m = (u128)((i128)((u128)1 << j) + *range<int>(-1, 1));
    break;
  }
  case 8: {
    int j = *range<int>(1, t.bits);
    m = (u128)(*rc::gen::resize(100, rc::gen::arbitrary<uint64_t>()) & tmask(j));
    break;
  }
  default: m = (u128)*rc::gen::resize(100, rc::gen::arbitrary<uint64_t>()); neg = false; break;
  }
  uint64_t pat = neg ? (uint64_t)(0 - (uint64_t)m) : (uint64_t)m;
  return pat_of(canon(t, pat));
}
static rc::Gen<Case> genNum() {
  return rc::gen::exec([]() {
    Case c;
    c.sub = *range<int>(0, C14_T_COUNT - 1);
    c.num = pick_value(TYPES[c.sub]);
    c.flags = *range<int>(0, 1) | (*range<int>(0, 4) == 0 ? 2 : 0) | (*range<int>(0, 3) == 0 ? 4 : 0);
    c.note = std::string("dec=") + dec_ref(TYPES[c.sub], canon(TYPES[c.sub], c.num)) + " type=" + TYPES[c.sub].name;
    return c;
  });
}

// ---- hex text -> integer
static Verdict run_numhex(const Case &c) {
  REQ(c.sub >= 0 && c.sub < C14_T_COUNT, "bad type index");
  const TI &t = TYPES[c.sub];
  i128 v = canon(t, c.num);
  uint64_t pat = pat_of(v);
  bool ustr = c.flags & 1;
  int casing = c.aux.size() > 0 ? c.aux[0] % 3 : 0, lead = c.aux.size() > 1 ? c.aux[1] % 4 : 0, sstyle = c.aux.size() > 2 ? c.aux[2] % 3 : 0;
  std::string text;
  uint64_t digits_of;
  if (t.sg && sstyle == 2) {  // two's complement digits of the type's width, no sign
    digits_of = pat & tmask(t.bits);
    if (v < 0) label("twos_complement_negative");
  } else {
    digits_of = (uint64_t)mag(v);
    if (v < 0) text += "-";
    else if (t.sg && sstyle == 1) { text += "+"; label("plus_sign"); }
  }
  int avail = t.bits / 4;
  std::string dg;
  {
    char b[32];
    snprintf(b, sizeof b, "%llx", (unsigned long long)digits_of);
    dg = b;
  }
  if ((int)dg.size() + lead <= avail) dg = std::string((size_t)lead, '0') + dg;  // leading zeros only while no digit is shifted out
  for (size_t i = 0; i < dg.size(); i++) {
    bool up = casing == 1 || (casing == 2 && (i & 1));
    text.push_back(up ? (char)toupper(dg[i]) : dg[i]);
  }
  label(std::string("type_") + t.name);
  i128 tmin = t.sg ? -((i128)1 << (t.bits - 1)) : 0;
  if (t.sg && v == tmin) label("signed_min");
  if ((int)dg.size() == avail) { label("full_width"); nontrivial_cur(); }
  else if (casing || lead || v < 0) nontrivial_cur();
  Req r;
  r.op = C14_STRH2NUM; r.sub = c.sub; r.flags = ustr ? C14_F_USTR : 0; r.in = S2B(text);
  c14_out o = call(r);
  REQ(o.val == pat, (ustr ? "ustrh2" : "strh2") << t.name << "(" << show(text) << ") = 0x" << std::hex << o.val << " != 0x" << pat);
  return Verdict::pass();
}
static rc::Gen<Case> genNumHex() {
  return rc::gen::exec([]() {
    Case c;
    c.sub = *range<int>(0, C14_T_COUNT - 1);
    c.num = pick_value(TYPES[c.sub]);
    c.flags = *range<int>(0, 1);
    c.aux = Bytes{(uint8_t)*range<int>(0, 2), (uint8_t)*range<int>(0, 3), (uint8_t)*range<int>(0, 2)};
    c.note = std::string("dec=") + dec_ref(TYPES[c.sub], canon(TYPES[c.sub], c.num)) + " type=" + TYPES[c.sub].name;
    return c;
  });
}

// ---- deterministic sweeps
// every power of ten (and its neighbours), 0, minima, maxima: all ten types, both flavours
static void enum_num_edges(double) {
  set_exhaustive(true);
  for (int ti = 0; ti < C14_T_COUNT; ti++) {
    const TI &t = TYPES[ti];
    u128 maxmag = t.sg ? ((u128)1 << (t.bits - 1)) : (u128)tmask(t.bits);
    std::vector<i128> vals = {0, 1, 9};
    for (u128 p = 10; p <= maxmag; p *= 10) {
      for (int dl = -1; dl <= 1; dl++) {
        i128 m = (i128)p + dl;
        if ((u128)m <= (t.sg ? maxmag - 1 : maxmag)) vals.push_back(m);
        if (t.sg && (u128)m <= maxmag) vals.push_back(-m);
      }
    }
    if (t.sg) { vals.push_back(-(i128)maxmag); vals.push_back(-(i128)maxmag + 1); vals.push_back((i128)maxmag - 1); vals.push_back((i128)maxmag - 2); vals.push_back(-1); vals.push_back(-9); }
    else { vals.push_back((i128)maxmag); vals.push_back((i128)maxmag - 1); }
    for (i128 v : vals) {
      for (int fl = 0; fl < 2; fl++) {
        Case c;
        c.sub = ti; c.num = pat_of(v); c.flags = fl;
        c.note = std::string("dec=") + dec_ref(t, v) + " type=" + t.name;
        if (!enum_case(c.ser(), [&]() { return run_num(c); })) return;
        Case h = c;
        h.aux = Bytes{(uint8_t)(fl * 2), 0, (uint8_t)(v < 0 ? (fl ? 2 : 0) : 0)};
        if (!enum_case(h.ser(), [&]() { return run_numhex(h); })) return;
      }
    }
  }
}
static Verdict replay_num_edges(const std::string &t) {
  Case c = Case::parse(t);
  return c.aux.empty() ? run_num(c) : run_numhex(c);
}
// all values of the 8-bit types; all values of the 16-bit types at scale >= 4 (thorough), every 5th otherwise
static void enum_small_ints(double scale) {
  bool full = scale >= 4.0;
  set_exhaustive(full);
  label(full ? "16bit_full" : "16bit_stride5");
  int types[] = {C14_T_U8, C14_T_S8, C14_T_U16, C14_T_S16};
  for (int ti : types) {
    const TI &t = TYPES[ti];
    uint32_t cnt = 1u << t.bits, step = (t.bits == 16 && !full) ? 5 : 1;
    for (int fl = 0; fl < 2; fl++) {
      for (uint32_t u = (step > 1 ? (uint32_t)(fl * 2 + (ti & 1)) : 0); u < cnt; u += step) {
        Case c;
        c.sub = ti; c.num = pat_of(canon(t, u)); c.flags = fl;
        if (!enum_case(c.ser(), [&]() { return run_num(c); })) return;
      }
    }
  }
}

// ================================================================== XML entities
static std::string xml_enc_ref(const Bytes &s) {
  std::string o;
  for (uint8_t ch : s) {
    switch (ch) {
    case '\'': o += "&apos;"; break;
    case '"': o += "&quot;"; break;
    case '&': o += "&amp;"; break;
    case '<': o += "&lt;"; break;
    case '>': o += "&gt;"; break;
    default: o.push_back((char)ch);
    }
  }
  return o;
}
static Bytes xml_dec_ref(const Bytes &t) {
  static const char *ent[] = {"&apos;", "&quot;", "&amp;", "&lt;", "&gt;"};
  static const char sym[] = {'\'', '"', '&', '<', '>'};
  Bytes o;
  for (size_t i = 0; i < t.size();) {
    bool hit = false;
    if (t[i] == '&') {
      for (int k = 0; k < 5 && !hit; k++) {
        size_t l = strlen(ent[k]);
        if (i + l <= t.size() && memcmp(&t[i], ent[k], l) == 0) { o.push_back((uint8_t)sym[k]); i += l; hit = true; }
      }
    }
    if (!hit) o.push_back(t[i++]);
  }
  return o;
}
static Verdict run_xml(const Case &c) {
  Req r;
  c14_out o;
  if (c.flags & 1) {  // decode of arbitrary entity-like text == single pass five-entity unescape
    const Bytes &t = c.data;
    Bytes e = xml_dec_ref(t);
    label("decode_arbitrary");
    if (e.size() != t.size()) { label("decode_arbitrary_has_entity"); nontrivial_cur(); }
    r.op = C14_XML_DEC; r.in = t; r.cap = (uint32_t)t.size() + 1;
    o = call(r);
    REQ(o.rc == 0, "xml_decode: rc=" << o.rc << " on " << show(t) << " with buffer = input size + 1");
    REQ(o.size_ret_set && o.size_ret == e.size(), "xml_decode(" << show(t) << "): size " << o.size_ret << " != " << e.size());
    CHK(same(o, e, "xml_decode"));
    CHK(untouched(o, e.size(), r.fill, "xml_decode"));
    CHK(guards(o, "xml_decode"));
    return Verdict::pass();
  }
  const Bytes &s = c.data;
  std::string enc = xml_enc_ref(s);
  size_t specials = enc.size() != s.size();
  int kinds = 0;
  for (char k : std::string("'\"&<>")) if (std::find(s.begin(), s.end(), (uint8_t)k) != s.end()) kinds++;
  label(kinds == 0 ? "specials_0" : kinds == 1 ? "specials_1kind" : "specials_many_kinds");
  if (xml_dec_ref(s) != s) label("raw_text_contains_entity");
  if (specials) nontrivial_cur();
  // encode into exactly the encoded length
  r.op = C14_XML_ENC; r.in = s; r.cap = (uint32_t)enc.size();
  o = call(r);
  REQ(o.rc == 0, "xml_encode: rc=" << o.rc << " on " << show(s) << " with buffer = encoded length " << enc.size());
  REQ(o.size_ret_set && o.size_ret == enc.size(), "xml_encode(" << show(s) << "): size " << o.size_ret << " != " << enc.size());
  CHK(same(o, enc, "xml_encode vs five-entity escaping"));
  CHK(guards(o, "xml_encode"));
  // decode inverts; buffer = encoded size + 1 (the only size the capacity test of mem_replace_arr accepts for every input)
  r.op = C14_XML_DEC; r.in = S2B(enc); r.cap = (uint32_t)enc.size() + 1;
  o = call(r);
  REQ(o.rc == 0, "xml_decode(xml_encode(s)): rc=" << o.rc << " on " << show(enc));
  REQ(o.size_ret_set && o.size_ret == s.size(), "xml_decode(" << show(enc) << "): size " << o.size_ret << " != " << s.size());
  CHK(same(o, s, "xml_decode(xml_encode(s))"));
  CHK(untouched(o, s.size(), r.fill, "xml_decode"));
  CHK(guards(o, "xml_decode"));
  // the result needs |s| bytes: a buffer of exactly that size is sufficient, one byte less is refused without touching the guards
  r.op = C14_XML_DEC; r.in = S2B(enc); r.cap = (uint32_t)s.size();
  o = call(r);
  REQ(o.rc == 0, "xml_decode(xml_encode(s)) into exactly |s| = " << s.size() << " bytes: rc=" << o.rc << " on " << show(enc));
  REQ(o.size_ret_set && o.size_ret == s.size(), "xml_decode(" << show(enc) << ", cap=|s|): size " << o.size_ret << " != " << s.size());
  CHK(same(o, s, "xml_decode(xml_encode(s), cap=|s|)"));
  CHK(guards(o, "xml_decode(cap=|s|)"));
  if (!s.empty()) {
    r.cap = (uint32_t)s.size() - 1;
    o = call(r);
    REQ(o.rc != 0, "xml_decode(" << show(enc) << ") into |s|-1 bytes reports success");
    CHK(guards(o, "xml_decode(cap=|s|-1)"));
    label("xml_short_buffers_refused");
  }
  if (specials) {
    for (uint32_t less = 1; less <= 5 && less <= enc.size(); less++) {
      r.op = C14_XML_ENC; r.in = s; r.cap = (uint32_t)enc.size() - less;
      o = call(r);
      REQ(o.rc != 0, "xml_encode(" << show(s) << ") into " << r.cap << " bytes reports success, " << enc.size() << " are needed");
      CHK(guards(o, "xml_encode(short buffer)"));
    }
  }
  r.op = C14_XML_DEC; r.in = S2B(enc);
  // probe (not asserted for rc): buffer of the input's size -- a success must still carry the right value
  if (!enc.empty()) {
    r.cap = (uint32_t)enc.size();
    o = call(r);
    label(o.rc == 0 ? "probe_dec_cap_eq_src:ok" : o.rc == ENOBUFS ? "probe_dec_cap_eq_src:ENOBUFS" : "probe_dec_cap_eq_src:other");
    if (o.rc == 0) {
      REQ(o.size_ret_set && o.size_ret == s.size(), "xml_decode(cap=src size): size " << o.size_ret << " != " << s.size());
      CHK(same(o, s, "xml_decode(cap=src size)"));
    }
    CHK(guards(o, "xml_decode(cap=src size)"));
  }
  return Verdict::pass();
}
static rc::Gen<Case> genXml() {
  return rc::gen::exec([]() {
    Case c;
    c.flags = *range<int>(0, 3) == 0 ? 1 : 0;
    int lk = *range<int>(0, 9);
    size_t n = lk == 0 ? 0 : lk < 8 ? *range<size_t>(1, 24) : *range<size_t>(25, 120);
    static const char *frag[] = {"&", "<", ">", "\"", "'", "&amp;", "&lt;", "&gt;", "&quot;", "&apos;", "amp;", "&am", "lt;", ";", "&&", "&#38;", "a", "Z", " ", "&gt", "quot"};
    while (c.data.size() < n) {
      int k = *range<int>(0, 9);
      if (k < 7) {
        const char *f = frag[*range<size_t>(0, sizeof(frag) / sizeof(frag[0]) - 1)];
        c.data.insert(c.data.end(), f, f + strlen(f));
      } else if (k < 9) c.data.push_back((uint8_t)("ampltgquos;"[*range<int>(0, 10)]));
      else c.data.push_back(*rc::gen::resize(100, rc::gen::arbitrary<uint8_t>()));
    }
    return c;
  });
}

// ================================================================== URL unescape
static bool url_unreserved(uint8_t ch) {
  return (ch >= 'A' && ch <= 'Z') || (ch >= 'a' && ch <= 'z') || (ch >= '0' && ch <= '9') || ch == '-' || ch == '.' || ch == '_' || ch == '~';
}
// mode 0: RFC 3986 (unreserved literal, everything else %HH); 1: every byte %HH; 2: form style (space as '+')
static std::string url_enc_ref(const Bytes &s, bool upper, int mode) {
  std::string o;
  for (uint8_t ch : s) {
    if (mode == 2 && ch == ' ') { o.push_back('+'); continue; }
    if (mode != 1 && url_unreserved(ch)) { o.push_back((char)ch); continue; }
    char b[4];
    snprintf(b, sizeof b, upper ? "%%%02X" : "%%%02x", ch);
    o += b;
  }
  return o;
}
static Verdict run_url(const Case &c) {
  const Bytes &s = c.data;
  bool upper = c.flags & 1, roomy = c.flags & 8;
  int mode = (c.flags >> 1) & 3;
  if (mode == 3) mode = 0;
  std::string enc = url_enc_ref(s, upper, mode);
  Req r;
  r.op = C14_URL_DEC; r.in = S2B(enc);
  r.cap = (uint32_t)((roomy ? enc.size() : s.size()) + 1);  // decoded bytes + terminator
  c14_out o = call(r);
  label(mode == 0 ? "rfc3986" : mode == 1 ? "escape_all" : "form_plus");
  label(upper ? "hex_upper" : "hex_lower");
  if (s.empty()) {
    label("empty");
    REQ(o.size_ret == 0, "http_url_decode(empty) returned " << o.size_ret);
    CHK(guards(o, "http_url_decode(empty)"));
    return Verdict::pass();
  }
  if (enc.size() != s.size()) nontrivial_cur();
  if (enc.find('+') != std::string::npos) label("plus_for_space");
  if (enc.size() >= 3 && enc[enc.size() - 3] == '%') label("escape_at_end");
  REQ(o.size_ret == s.size(), "http_url_decode(" << show(enc) << ", buf_size=" << r.cap << "): returned " << o.size_ret << " != " << s.size());
  CHK(same(o, s, "http_url_decode(percent_encode(s))"));
  REQ(o.out[s.size()] == 0, "http_url_decode: no terminator after the decoded bytes");
  CHK(untouched(o, s.size() + 1, r.fill, "http_url_decode"));
  CHK(guards(o, "http_url_decode"));
  return Verdict::pass();
}
static rc::Gen<Case> genUrl() {
  return rc::gen::exec([]() {
    Case c;
    int lk = *range<int>(0, 9);
    size_t n = lk == 0 ? 0 : lk < 8 ? *range<size_t>(1, 24) : *range<size_t>(25, 200);
    for (size_t i = 0; i < n; i++) {
      int k = *range<int>(0, 9);
      if (k < 4) c.data.push_back((uint8_t)("az09-._~AZ"[*range<int>(0, 9)]));
      else if (k < 7) c.data.push_back((uint8_t)(" +%&=/?#:@"[*range<int>(0, 9)]));
      else c.data.push_back(*rc::gen::resize(100, rc::gen::arbitrary<uint8_t>()));
    }
    c.flags = *range<int>(0, 1) | (*rc::gen::element<int>(0, 0, 1, 2) << 1) | (*range<int>(0, 1) << 3);
    return c;
  });
}

// ================================================================== CRC-32
struct CrcP { const char *name; uint32_t poly, init; bool refin, refout; uint32_t xorout, check; };
// copied from the catalogue lines quoted in crc32.h (width=32 poly init refin refout xorout check)
static const CrcP CRCS[C14_CRC_COUNT] = {
    {"crc32a/BZIP2", 0x04c11db7, 0xffffffff, false, false, 0xffffffff, 0xfc891918},
    {"crc32cksum", 0x04c11db7, 0x00000000, false, false, 0xffffffff, 0x765e7680},
    {"crc32mpeg2", 0x04c11db7, 0xffffffff, false, false, 0x00000000, 0x0376e6e7},
    {"crc32b/ISO-HDLC", 0x04c11db7, 0xffffffff, true, true, 0xffffffff, 0xcbf43926},
    {"crc32jamcrc", 0x04c11db7, 0xffffffff, true, true, 0x00000000, 0x340bc6d9},
    {"crc32c/ISCSI", 0x1edc6f41, 0xffffffff, true, true, 0xffffffff, 0xe3069283},
    {"crc32d/BASE91-D", 0xa833982b, 0xffffffff, true, true, 0xffffffff, 0x87315576},
    {"crc32q/AIXM", 0x814141ab, 0x00000000, false, false, 0x00000000, 0x3010bf7f},
};
static uint32_t reflect(uint32_t v, int bits) {
  uint32_t r = 0;
  for (int i = 0; i < bits; i++) if (v & (1u << i)) r |= 1u << (bits - 1 - i);
  return r;
}
// Rocksoft model, one bit at a time, no tables
static uint32_t crc_model(const CrcP &p, const uint8_t *d, size_t n) {
  uint32_t crc = p.init;
  for (size_t i = 0; i < n; i++) {
    uint32_t b = p.refin ? reflect(d[i], 8) : d[i];
    crc ^= b << 24;
    for (int k = 0; k < 8; k++) crc = (crc & 0x80000000u) ? ((crc << 1) ^ p.poly) : (crc << 1);
  }
  if (p.refout) crc = reflect(crc, 32);
  return crc ^ p.xorout;
}
static long SMALL_LIMIT = 64;
static Verdict run_crc(const Case &c) {
  REQ(c.sub >= 0 && c.sub < C14_CRC_COUNT, "bad crc variant");
  const CrcP &p = CRCS[c.sub];
  Req r;
  r.op = C14_CRC; r.sub = c.sub; r.in = c.data;
  size_t sum = 0;
  bool small = false, big = false;
  for (long long x : c.iv) {
    size_t take = (size_t)std::max<long long>(0, x);
    if (sum + take > c.data.size()) take = c.data.size() - sum;
    r.parts.push_back((uint32_t)take);
    sum += take;
    if (take && (long)take < SMALL_LIMIT) small = true;
    if ((long)take >= SMALL_LIMIT) big = true;
  }
  if (!r.parts.empty() && sum < c.data.size()) {  // remainder goes into the last chunk so the parts cover the message
    if (r.parts.size() < C14_MAXPARTS) { r.parts.push_back((uint32_t)(c.data.size() - sum)); }
    else r.parts.back() += (uint32_t)(c.data.size() - sum);
    size_t take = r.parts.back();
    if (take && (long)take < SMALL_LIMIT) small = true;
    if ((long)take >= SMALL_LIMIT) big = true;
  }
  if (r.parts.empty()) { if ((long)c.data.size() < SMALL_LIMIT) small = true; else big = true; }
  uint32_t exp = crc_model(p, c.data.data(), c.data.size());
  label(std::string("variant_") + p.name);
  label(r.parts.size() <= 1 ? "one_shot" : "update_chunks_ge_2");
  if (small && big) label("mixed_table_paths");
  else label(big ? "table256_path" : "table16_path");
  if (c.data.empty()) label("empty");
  if ((long)c.data.size() >= SMALL_LIMIT - 1 && (long)c.data.size() <= SMALL_LIMIT + 1) label("len_at_small_tbl_limit");
  if (r.parts.size() >= 2) nontrivial_cur();
  c14_out o = call(r);
  REQ((uint32_t)o.val == exp, p.name << ": library 0x" << std::hex << (uint32_t)o.val << " != bit-serial model 0x" << exp << std::dec << " (len " << c.data.size() << ", " << r.parts.size() << " chunk(s))");
  return Verdict::pass();
}
static rc::Gen<Case> genCrc() {
  return rc::gen::exec([]() {
    Case c;
    c.sub = *range<int>(0, C14_CRC_COUNT - 1);
    int lk = *range<int>(0, 9);
    size_t L = (size_t)SMALL_LIMIT;
    size_t n = lk == 0 ? *range<size_t>(0, 3) : lk < 4 ? *range<size_t>(1, L - 1) : lk < 6 ? *range<size_t>(L - 2, L + 2) : lk < 9 ? *range<size_t>(L, 4 * L) : *range<size_t>(4 * L, 1200);
    c.data = *bytes_len(n);
    int pk = *range<int>(0, 3);
    if (pk > 0) {
      size_t k = *range<size_t>(1, 7), left = n;
      for (size_t i = 0; i < k; i++) {
        int how = *range<int>(0, 5);
        size_t take = how == 0 ? 0 : how == 1 ? std::min<size_t>(left, 1) : how == 2 ? std::min<size_t>(left, L) : how == 3 ? std::min<size_t>(left, L - 1) : *range<size_t>(0, left);
        c.iv.push_back((long long)take);
        left -= take;
      }
    }
    return c;
  });
}
// every entry of every table through both the 16-entry and the 256-entry path:
// messages of 1 and SMALL_LIMIT bytes whose last byte runs over 0..255 (index = state ^ byte is a bijection in byte)
static void enum_crc_tables(double) {
  set_exhaustive(true);
  for (int v = 0; v < C14_CRC_COUNT; v++) {
    for (size_t len : {(size_t)1, (size_t)2, (size_t)SMALL_LIMIT, (size_t)SMALL_LIMIT + 3}) {
      for (int b = 0; b < 256; b++) {
        Case c;
        c.sub = v;
        c.data.resize(len);
        for (size_t i = 0; i + 1 < len; i++) c.data[i] = (uint8_t)(0x5b * (i + 1) + 7 * v + len);
        c.data[len - 1] = (uint8_t)b;
        if (len == (size_t)SMALL_LIMIT + 3) c.iv = {(long long)SMALL_LIMIT, 2, 1};
        if (!enum_case(c.ser(), [&]() { return run_crc(c); })) return;
      }
    }
  }
}

// ================================================================== anchors
static bool anchors() {
  bool ok = true;
  auto bad = [&](const char *w) { fprintf(stderr, "C14 reference anchor failed: %s\n", w); ok = false; };
  // RFC 4648 section 10
  const char *tv[][2] = {{"", ""}, {"f", "Zg=="}, {"fo", "Zm8="}, {"foo", "Zm9v"}, {"foob", "Zm9vYg=="}, {"fooba", "Zm9vYmE="}, {"foobar", "Zm9vYmFy"}};
  for (auto &t : tv) if (b64_ref(S2B(t[0])) != t[1]) bad("RFC 4648 section 10 vector");
  // catalogue check values over "123456789"
  for (auto &p : CRCS) if (crc_model(p, (const uint8_t *)"123456789", 9) != p.check) bad(p.name);
  // zlib crc32("The quick brown fox jumps over the lazy dog") = 0x414fa339 (ISO-HDLC)
  if (crc_model(CRCS[C14_CRC_B], (const uint8_t *)"The quick brown fox jumps over the lazy dog", 43) != 0x414fa339u) bad("zlib vector");
  // RFC 3720 B.4: CRC32C of 32 zero bytes = 0x8a9136aa
  { Bytes z(32, 0); if (crc_model(CRCS[C14_CRC_C], z.data(), 32) != 0x8a9136aau) bad("RFC 3720 B.4 vector"); }
  if (xml_enc_ref(S2B("<a href=\"x\">Tom & 'Jerry'</a>")) != "&lt;a href=&quot;x&quot;&gt;Tom &amp; &apos;Jerry&apos;&lt;/a&gt;") bad("xml escape");
  if (xml_dec_ref(S2B("&amp;lt;&lt;&unknown;&gt")) != S2B("&lt;<&unknown;&gt")) bad("xml unescape");
  if (url_enc_ref(S2B("a b&c~/\xff"), true, 0) != "a%20b%26c~%2F%FF") bad("percent-encoding");
  if (dec_ref(TYPES[C14_T_S8], canon(TYPES[C14_T_S8], 0x80)) != "-128" || dec_ref(TYPES[C14_T_U64], canon(TYPES[C14_T_U64], ~0ULL)) != "18446744073709551615") bad("decimal");
  if (pow10_exp(1000) != 3 || pow10_exp(1001) || pow10_exp(1) || pow10_exp((u128)10000000000000000000ULL) != 19) bad("pow10 classifier");
  return ok;
}

int main(int argc, char **argv) {
  if (!anchors()) return 2;
  long szb = c14_info(C14_INFO_SIZE_T_BITS);
  TYPES[C14_T_USIZE].bits = (int)szb;
  TYPES[C14_T_SSIZE].bits = (int)szb;
  SMALL_LIMIT = c14_info(C14_INFO_SMALL_TBL_LIMIT);
  if (SMALL_LIMIT < 4 || SMALL_LIMIT > 256) return 2;
  add_check<Case>("b64", 50000, 100, genB64, run_b64);
  add_check<Case>("hex", 40000, 100, genHex, run_hex);
  add_check<Case>("num", 200000, 100, genNum, run_num);
  add_check<Case>("numhex", 60000, 100, genNumHex, run_numhex);
  add_check<Case>("xml", 50000, 100, genXml, run_xml);
  add_check<Case>("url", 30000, 100, genUrl, run_url);
  add_check<Case>("crc", 50000, 100, genCrc, run_crc);
  add_enum_check("num_edges", 100, enum_num_edges, replay_num_edges);
  add_enum_check("num_small_ints", 100, enum_small_ints, [](const std::string &t) { return run_num(Case::parse(t)); });
  add_enum_check("crc_tables", 100, enum_crc_tables, [](const std::string &t) { return run_crc(Case::parse(t)); });
  // clang's -fsanitize=bounds includes local-bounds, which reports by a bare trap (SIGILL, no message);
  // pbt.hpp does not catch SIGILL, so route it to the same crash dump here.
  signal(SIGILL, pbt_sig);
  return driver_main(argc, argv);
}
