// C06 -- event and timer registrations: (a) what a registration programs (captured at the
// interposed timerfd/epoll calls, exact integer oracle), (b) when events fire against the real
// kernel (history + per-channel model; negative claims sequenced through the owning thread).
#include "pbt.hpp"
#include "../shims/tp_abi.h"
#include <cerrno>
#include <sys/epoll.h>
#include <sys/wait.h>
#include <csignal>
#include <memory>

using namespace pbt;

enum { EV_READ = 0, EV_WRITE = 1, EV_TIMER = 2, EV_PROC = 3 };
enum { F_ONESHOT = 1, F_DISPATCH = 2, F_EOF = 0x100, F_ERROR = 0x200 };
enum { FF_ABSTIME = 4 };

// ---------------------------------------------------------------- (a)
struct Op { int op = 0, event = 0, flags = 0; unsigned fflags = 0; unsigned long long data = 0; };
struct ProgCase {
  int ident_kind = 0, cb_null = 0;
  std::vector<Op> ops;
  std::string ser() const {
    Writer w;
    w.i("ident_kind", ident_kind).i("cb_null", cb_null).i("nops", (long long)ops.size());
    for (size_t i = 0; i < ops.size(); i++) {
      w.iv(("op" + std::to_string(i)).c_str(), {ops[i].op, ops[i].event, ops[i].flags, (long long)ops[i].fflags});
      w.u(("data" + std::to_string(i)).c_str(), ops[i].data);
    }
    return w.str();
  }
  static ProgCase parse(const std::string &t) {
    Reader r(t);
    ProgCase c;
    c.ident_kind = (int)r.i("ident_kind"); c.cb_null = (int)r.i("cb_null");
    int n = (int)r.i("nops");
    for (int i = 0; i < n; i++) {
      auto v = r.iv(("op" + std::to_string(i)).c_str());
      v.resize(4, 0);
      Op o; o.op = (int)v[0]; o.event = (int)v[1]; o.flags = (int)v[2]; o.fflags = (unsigned)v[3];
      o.data = r.u(("data" + std::to_string(i)).c_str());
      c.ops.push_back(o);
    }
    return c;
  }
};
void showValue(const ProgCase &c, std::ostream &os) { os << c.ser(); }

static bool malformed(const ProgCase &c, const Op &oo, uint64_t fd_table) {
  Op o = oo;
  if (o.op == 3) { o.flags = 0; o.fflags = 0; }  // tpt_ev_del_args1() passes no flags / filter flags
  if (o.flags & ~0x000f) return true;
  if ((o.flags & 3) == 3) return true;
  if (c.cb_null || c.ident_kind == 1) return true;
  switch (o.event) {
  case EV_READ: case EV_WRITE:
    if (c.ident_kind != 0) return true;  // not a descriptor inside the table (EBADF)
    (void)fd_table;
    if (o.fflags & ~1u) return true;
    return false;
  case EV_TIMER: return (o.fflags & ~7u) != 0;
  case EV_PROC: return (o.fflags & ~1u) != 0;
  default: return true;
  }
}

static Verdict run_prog(const ProgCase &c) {
  c06a_case k;
  memset(&k, 0, sizeof k);
  k.ident_kind = (uint8_t)c.ident_kind; k.cb_null = (uint8_t)c.cb_null;
  k.nops = (uint8_t)std::min<size_t>(c.ops.size(), C06_MAX_OPS);
  for (int i = 0; i < k.nops; i++) {
    k.ops[i].op = (uint8_t)c.ops[i].op; k.ops[i].event = (uint16_t)c.ops[i].event; k.ops[i].flags = (uint16_t)c.ops[i].flags;
    k.ops[i].fflags = c.ops[i].fflags; k.ops[i].data = c.ops[i].data;
  }
  c06a_out o;
  c06a_run(&k, &o);
  PBT_REQUIRE(o.setup_rc == 0, "harness: setup failed " << o.setup_rc);
  bool has_tfd = false, rw_reg = false;
  int reg_event = -1;
  uint32_t live = o.base_live_fds;
  bool nt = false;
  int lowat = 1;
  for (int i = 0; i < k.nops; i++) {
    const Op &op = c.ops[i];
    const c06a_opres &r = o.r[i];
    std::ostringstream tg;
    tg << "op#" << i << " (" << (op.op == 0 ? "add" : op.op == 1 ? "enable" : op.op == 2 ? "disable" : "del") << " event " << op.event << " flags " << op.flags
       << " fflags " << op.fflags << " data " << op.data << ")";
    std::string tag = tg.str();
    {
      // receive low-water mark of the socket: only a well-formed READ add/enable/disable with TP_FF_RW_LOWAT may touch it
      bool may_set = c.ident_kind == 0 && op.event == EV_READ && (op.fflags & 1) && op.op != 3 && !malformed(c, op, o.fd_table_size);
      if (!may_set) PBT_REQUIRE(r.rcvlowat == lowat, tag << ": the socket's receive low-water mark changed from " << lowat << " to " << r.rcvlowat << " (not a read registration with TP_FF_RW_LOWAT)");
      else {
        if (r.rc == 0 && op.data >= 1 && op.data <= 4096) PBT_REQUIRE(r.rcvlowat == (int)op.data, tag << ": receive low-water mark is " << r.rcvlowat);
        label("read_lowat_applied");
      }
      lowat = r.rcvlowat;
      if (op.event == EV_WRITE && (op.fflags & 1) && c.ident_kind == 0) label("write_lowat_requested");
    }
    if (malformed(c, op, o.fd_table_size)) {
      PBT_REQUIRE(r.rc != 0, tag << ": malformed registration was accepted");
      PBT_REQUIRE(r.tfd_creates == 0 && r.ep_calls == 0 && r.tfd_settimes == 0, tag << ": malformed registration touched timerfd/epoll");
      PBT_REQUIRE(r.live_fds == live, tag << ": malformed registration changed the descriptor set");
      label("malformed_refused");
      continue;
    }
    if (op.flags & 0xc) {
      // outcome unspecified: follow what the library did so that later operations are judged against the real state
      label("reserved_flag_bits_unspecified");
      if (op.event == EV_PROC && r.rc == 0 && (op.op == 0 || op.op == 1)) {  // identifier happens to be a live pid (see below): legitimate registration, stop here
        PBT_REQUIRE(r.live_fds == live + 1, tag << ": successful process registration owns " << (long)r.live_fds - (long)live << " descriptors");
        label("proc_cookie_is_a_live_pid");
        return Verdict::pass();
      }
      live = r.live_fds;
      has_tfd = (uint32_t)(r.tpdata & 0xffffffffu) != 0;
      if (r.rc == 0 && (op.event == EV_READ || op.event == EV_WRITE)) { rw_reg = (op.op != 3); reg_event = rw_reg ? op.event : -1; }
      if (r.rc == 0 && op.event == EV_TIMER) reg_event = has_tfd ? EV_TIMER : -1;
      continue;
    }
    if (reg_event != -1 && op.event != reg_event) {
      // one user record is registered for one event kind at a time; switching kinds on a live record is caller misuse
      label("mixed_event_kinds_on_one_udata");
      return Verdict::pass();
    }
    if (op.event == EV_PROC) {
      if (r.rc == 0 && (op.op == 0 || op.op == 1)) {
        // the identifier (a descriptor number or the low half of an address) happens to be the pid of a live process on this
        // machine: the registration is legitimate and owns exactly one process descriptor; firing behaviour of process
        // events is part (c)'s subject, the rest of this program is not evaluated
        PBT_REQUIRE(r.live_fds == live + 1, tag << ": successful process registration owns " << (long)r.live_fds - (long)live << " descriptors");
        label("proc_cookie_is_a_live_pid");
        return Verdict::pass();
      }
      // no such process behind the cookie: must fail and leave nothing behind
      PBT_REQUIRE(r.live_fds == live, tag << ": failed process registration left a descriptor");
      label("proc_on_bad_pid");
      continue;
    }
    if (op.event == EV_TIMER) {
      if (reg_event != -1 && reg_event != EV_TIMER) { label("mixed_event_kinds_on_one_udata"); return Verdict::pass(); }
      if (op.op == 3 || op.op == 2) {
        if (!has_tfd) { PBT_REQUIRE(r.rc != 0, tag << ": disable/delete of a timer that does not exist succeeded"); continue; }
        PBT_REQUIRE(r.rc == 0, tag << ": returned " << r.rc);
        if (op.op == 2) {
          PBT_REQUIRE(r.tfd_settimes == 1 && r.v_sec == 0 && r.v_nsec == 0 && r.i_sec == 0 && r.i_nsec == 0, tag << ": disable did not disarm the timer");
        } else {
          PBT_REQUIRE(r.live_fds + 1 == live, tag << ": delete did not release the timer descriptor");
          live = r.live_fds;
          has_tfd = false;
          reg_event = -1;
        }
        continue;
      }
      // add / enable
      static const unsigned __int128 unit[4] = {1000000000ull, 1000000ull, 1000ull, 1ull};
      unsigned __int128 total = (unsigned __int128)op.data * unit[op.fflags & 3];
      unsigned __int128 sec = total / 1000000000ull;
      uint64_t nsec = (uint64_t)(total % 1000000000ull);
      if (sec > ((unsigned __int128)1 << 62)) { label("timer_seconds_overflow_time_t"); live = r.live_fds; has_tfd = (uint32_t)(r.tpdata & 0xffffffffu) != 0; continue; }
      bool usec_frac = ((op.fflags & 3) == 2) && (op.data % 1000000ull) != 0;
      if (usec_frac && known("timer_usec_conversion")) { excluded("timer_usec_conversion"); live = r.live_fds; has_tfd = (uint32_t)(r.tpdata & 0xffffffffu) != 0; continue; }
      PBT_REQUIRE(r.rc == 0, tag << ": valid timer registration refused with " << r.rc << " (timerfd_settime errno " << r.tfd_settime_errno
                                 << ", programmed " << r.v_sec << "s " << r.v_nsec << "ns)");
      if (!has_tfd) {
        PBT_REQUIRE(r.tfd_creates == 1, tag << ": no timerfd created");
        PBT_REQUIRE(r.tfd_clock == ((op.fflags & FF_ABSTIME) ? 0 /*CLOCK_REALTIME*/ : 1 /*CLOCK_MONOTONIC*/), tag << ": wrong clock " << r.tfd_clock);
        PBT_REQUIRE(r.ep_adds == 1 && (r.ep_events & EPOLLIN), tag << ": timerfd not added to epoll for reading");
        PBT_REQUIRE(r.live_fds == live + 1, tag << ": descriptor accounting");
        live = r.live_fds;
        has_tfd = true;
        reg_event = EV_TIMER;
      } else {
        PBT_REQUIRE(r.tfd_creates == 0, tag << ": second timerfd created for the same registration");
      }
      PBT_REQUIRE(r.tfd_settimes == 1, tag << ": timerfd_settime not called exactly once");
      PBT_REQUIRE((unsigned __int128)r.v_sec == sec && (uint64_t)r.v_nsec == nsec,
                  tag << ": programmed " << r.v_sec << "s " << r.v_nsec << "ns, exact value is " << (uint64_t)sec << "s " << nsec << "ns");
      bool once = (op.flags & (F_ONESHOT | F_DISPATCH)) != 0;
      if (once) PBT_REQUIRE(r.i_sec == 0 && r.i_nsec == 0, tag << ": one-shot/dispatch timer programmed with an interval");
      else PBT_REQUIRE(r.i_sec == r.v_sec && r.i_nsec == r.v_nsec, tag << ": periodic timer interval != value");
      PBT_REQUIRE(((r.tfd_flags & 1) != 0) == ((op.fflags & FF_ABSTIME) != 0), tag << ": TFD_TIMER_ABSTIME " << r.tfd_flags);
      if (nsec != 0 || op.data >= (1ull << 32)) { label("timer_subsecond_or_wide"); nt = true; }
      label(std::string("timer_unit_") + (char)('0' + (op.fflags & 3)));
      continue;
    }
    // read / write on a valid descriptor
    if (reg_event != -1 && reg_event != op.event && (reg_event == EV_TIMER)) { label("mixed_event_kinds_on_one_udata"); return Verdict::pass(); }
    uint32_t base_ev = EPOLLHUP | EPOLLERR;
    uint32_t want = base_ev | (op.event == EV_READ ? (EPOLLIN | EPOLLRDHUP | EPOLLPRI) : EPOLLOUT) | ((op.flags & 3) ? EPOLLONESHOT : 0);
    if (op.op == 3) {
      if (!rw_reg) { PBT_REQUIRE(r.rc != 0, tag << ": delete of an unregistered descriptor succeeded"); continue; }
      PBT_REQUIRE(r.rc == 0 && r.ep_dels == 1, tag << ": delete rc " << r.rc);
      rw_reg = false; reg_event = -1;
      continue;
    }
    if (op.op == 2) {
      PBT_REQUIRE(r.rc == 0, tag << ": disable returned " << r.rc);
      PBT_REQUIRE(r.ep_events == (base_ev | EPOLLET), tag << ": disable programmed events " << std::hex << r.ep_events);
      rw_reg = true; reg_event = op.event;
      label("rw_disable");
      continue;
    }
    PBT_REQUIRE(r.rc == 0, tag << ": valid read/write registration refused with " << r.rc);
    PBT_REQUIRE(r.ep_events == want, tag << ": programmed epoll events " << std::hex << r.ep_events << " expected " << want);
    PBT_REQUIRE(r.live_fds == live, tag << ": read/write registration changed the descriptor set");
    rw_reg = true; reg_event = op.event;
    label("rw_registered");
    if (op.flags & 3) nt = true;
  }
  if (nt || k.nops >= 3) nontrivial_cur();
  return Verdict::pass();
}

static rc::Gen<ProgCase> genProg() {
  return rc::gen::exec([]() {
    ProgCase c;
    int kind = *rc::gen::weightedElement<int>({{6, EV_TIMER}, {2, EV_READ}, {1, EV_WRITE}, {1, EV_PROC}, {1, 4}, {1, 7}});
    c.ident_kind = (kind == EV_READ || kind == EV_WRITE) ? *rc::gen::weightedElement<int>({{8, 0}, {1, 1}, {1, 2}, {1, 4}, {1, 5}})
                                                         : *rc::gen::weightedElement<int>({{8, 3}, {1, 1}});
    c.cb_null = *rc::gen::weightedElement<int>({{12, 0}, {1, 1}});
    int nops = *range<int>(1, C06_MAX_OPS);
    static const unsigned long long edges[] = {0, 1, 999, 1000, 1001, 999999, 1000000, 1000001, 999999999ull, 1000000000ull, 1000000001ull,
                                               4294967295ull, 4294967296ull, 4294967297ull, 1999999, 2500000, 123456789012ull};
    for (int i = 0; i < nops; i++) {
      Op o;
      o.op = (i == 0) ? *rc::gen::weightedElement<int>({{6, 0}, {2, 1}, {1, 2}, {1, 3}}) : *range<int>(0, 3);
      o.event = kind;
      if (*range<int>(0, 24) == 0) o.event = *range<int>(0, 7);
      o.flags = *rc::gen::weightedElement<int>({{4, 0}, {3, F_ONESHOT}, {3, F_DISPATCH}, {1, 3}, {1, 4}, {1, 0x10}, {1, 0x100}, {1, 0x8001}});
      unsigned units = (unsigned)*range<int>(0, 3);
      o.fflags = (kind == EV_TIMER) ? (units | (*range<int>(0, 3) == 0 ? FF_ABSTIME : 0)) : (unsigned)*rc::gen::weightedElement<int>({{6, 0}, {1, 1}});
      if (*range<int>(0, 14) == 0) o.fflags |= (1u << *range<int>(3, 31));
      int dk = *range<int>(0, 9);
      o.data = dk < 6 ? *rc::gen::elementOf(std::vector<unsigned long long>(edges, edges + sizeof(edges) / sizeof(edges[0])))
                      : dk < 9 ? *rc::gen::resize(100, rc::gen::arbitrary<uint32_t>()) * (unsigned long long)*range<int>(1, 1000)
                               : (*rc::gen::resize(100, rc::gen::arbitrary<uint64_t>()) >> 2);
      c.ops.push_back(o);
    }
    return c;
  });
}

// ---------------------------------------------------------------- (b)
struct Cmd { int cmd = 0, ch = 0, outside = 0, flags = 0, arg = 0; };
struct FireCase {
  int kind[C06_MAX_CH] = {0, 0, 0};
  int period[C06_MAX_CH] = {0, 0, 0};
  int tid_of[C06_MAX_CH] = {0, 0, 0};  // timers: 0 own cookie, k+1 = identifier equals the descriptor number of channel k
  int on_pvt = 0;  // registrations on the pool's virtual thread
  std::vector<Cmd> cmds;
  Bytes plan;
  std::string ser() const {
    Writer w;
    w.i("on_pvt", on_pvt).iv("kind", {kind[0], kind[1], kind[2]}).iv("period", {period[0], period[1], period[2]}).iv("tid_of", {tid_of[0], tid_of[1], tid_of[2]}).i("ncmds", (long long)cmds.size());
    for (size_t i = 0; i < cmds.size(); i++) w.iv(("c" + std::to_string(i)).c_str(), {cmds[i].cmd, cmds[i].ch, cmds[i].outside, cmds[i].flags, cmds[i].arg});
    w.b("plan", plan);
    return w.str();
  }
  static FireCase parse(const std::string &t) {
    Reader r(t);
    FireCase c;
    auto k = r.iv("kind"), p = r.iv("period"), td = r.iv("tid_of");
    k.resize(3, 0); p.resize(3, 0); td.resize(3, 0);
    for (int i = 0; i < 3; i++) { c.kind[i] = (int)k[i]; c.period[i] = (int)p[i]; c.tid_of[i] = (int)td[i]; }
    int n = (int)r.i("ncmds");
    for (int i = 0; i < n; i++) {
      auto v = r.iv(("c" + std::to_string(i)).c_str());
      v.resize(5, 0);
      c.cmds.push_back(Cmd{(int)v[0], (int)v[1], (int)v[2], (int)v[3], (int)v[4]});
    }
    c.plan = r.b("plan");
    c.on_pvt = (int)r.i("on_pvt");
    return c;
  }
};
void showValue(const FireCase &c, std::ostream &os) { os << c.ser(); }

struct ChModel {
  bool tpt_set = false;
  bool reg = false, enabled = false;
  int flags = 0;
  int pending = 0;
  bool eof = false;
};
enum Expect { EX_NONE, EX_SILENT, EX_AT_LEAST_ONE, EX_EXACTLY_ONE };

static const char *cmdname(int c) {
  static const char *n[] = {"?", "add", "enable", "disable", "del", "peer_write", "drain", "peer_close", "sleep", "peer_shut_wr", "reopen", "enable1", "disable1"};
  return (c >= 0 && c <= 12) ? n[c] : "?";
}

static Verdict run_fire(const FireCase &c) {
  c06b_case k;
  memset(&k, 0, sizeof k);
  for (int i = 0; i < C06_MAX_CH; i++) { k.kind[i] = (uint8_t)c.kind[i]; k.period_ms[i] = (uint16_t)std::max(1, c.period[i]); k.timer_ident_of[i] = (uint8_t)c.tid_of[i]; }
  k.ncmds = (uint8_t)std::min<size_t>(c.cmds.size(), C06_MAX_CMDS);
  k.on_pvt = (uint8_t)(c.on_pvt != 0);
  k.plans.plan_len = (uint32_t)std::min<size_t>(c.plan.size(), TP_PLAN_MAX);
  memcpy(k.plans.plan, c.plan.data(), k.plans.plan_len);
  // model run 1: decide which callbacks the harness should wait for, and the expectation per step and channel
  ChModel m[C06_MAX_CH];
  std::vector<std::array<Expect, C06_MAX_CH>> ex(k.ncmds);
  std::vector<std::array<bool, C06_MAX_CH>> strong(k.ncmds);  // "nothing after the call returned" (in-thread disable/delete, or outside + fence)
  for (int i = 0; i < k.ncmds; i++) {
    const Cmd &cm = c.cmds[i];
    int ch = cm.ch % C06_MAX_CH;
    k.cmds[i].cmd = (uint8_t)cm.cmd; k.cmds[i].ch = (uint8_t)ch; k.cmds[i].outside = (uint8_t)cm.outside;
    k.cmds[i].flags = (uint16_t)cm.flags; k.cmds[i].arg = (uint16_t)cm.arg;
    for (int j = 0; j < C06_MAX_CH; j++) { ex[i][j] = EX_NONE; strong[i][j] = false; }
    bool usable = c.kind[ch] != 0;
    switch (cm.cmd) {
    case E_ADD:
      if (usable) { m[ch].tpt_set = true; m[ch].reg = true; m[ch].enabled = true; m[ch].flags = cm.flags & 3; }
      break;
    case E_ENABLE1:  // no flags argument: the registration keeps the flags its record remembers (none after a delete / a one-shot report)
      if (usable && c.kind[ch] != 3 && m[ch].tpt_set) { m[ch].reg = true; m[ch].enabled = true; }
      break;
    case E_DISABLE1:
      if (usable && c.kind[ch] != 3 && m[ch].tpt_set) { m[ch].reg = true; m[ch].enabled = false; strong[i][ch] = true; }
      break;
    case E_ENABLE:
      // enable/disable/delete need the thread binding that only tpt_ev_add() stores in the user record (EINVAL before)
      if (usable && m[ch].tpt_set) { m[ch].reg = true; m[ch].enabled = true; m[ch].flags = cm.flags & 3; }
      break;
    case E_DISABLE:
      if (usable && m[ch].tpt_set) {
        if (c.kind[ch] == 3 && !m[ch].reg) break;  // ENOENT for timers that do not exist
        m[ch].reg = true; m[ch].enabled = false; strong[i][ch] = true;
        if (c.kind[ch] != 3) m[ch].flags = cm.flags & 3;  // a read/write disable stores the flags it was given
      }
      break;
    case E_DEL:
      if (usable && m[ch].tpt_set) { m[ch].reg = false; m[ch].enabled = false; m[ch].flags = 0; strong[i][ch] = true; }
      break;
    case E_PEER_WRITE: if (c.kind[ch] == 1 || c.kind[ch] == 2) { if (!m[ch].eof) m[ch].pending++; } break;
    case E_DRAIN: if (c.kind[ch] == 1 || c.kind[ch] == 2) m[ch].pending = 0; break;
    case E_PEER_CLOSE: if (c.kind[ch] == 1 || c.kind[ch] == 2 || c.kind[ch] == 4) m[ch].eof = true; break;  // kind 4: the pipe's reader is gone (error condition)
    case E_PEER_SHUT_WR: if (c.kind[ch] == 1) m[ch].eof = true; break;  // half close: the read side sees end of stream
    case E_REOPEN:  // descriptor closed without a delete and reused: the kernel forgot the registration, the user record did not
      if (c.kind[ch] == 1 || c.kind[ch] == 2) { m[ch].reg = false; m[ch].enabled = false; m[ch].pending = 0; m[ch].eof = false; }
      break;
    default: break;
    }
    uint8_t wait = 0;
    for (int j = 0; j < C06_MAX_CH; j++) {
      if (c.kind[j] == 0) continue;
      bool cond = c.kind[j] == 1 ? (m[j].pending > 0 || m[j].eof) : true /* write ends are writable (or in error), timers elapse */;
      bool active = m[j].reg && m[j].enabled && cond;
      if (!active) { ex[i][j] = EX_SILENT; continue; }
      if (m[j].flags & F_ONESHOT) { ex[i][j] = EX_EXACTLY_ONE; m[j].reg = false; m[j].enabled = false; m[j].flags = 0; wait |= (1 << j); }
      else if (m[j].flags & F_DISPATCH) { ex[i][j] = EX_EXACTLY_ONE; m[j].enabled = false; wait |= (1 << j); }
      else { ex[i][j] = EX_AT_LEAST_ONE; wait |= (1 << j); }
    }
    k.cmds[i].wait_mask = wait;
  }
  Verdict v = Verdict::pass();
  for (int attempt = 0; attempt < 3; attempt++) {
    c06b_out o;
    alarm(300);
    c06b_run(&k, &o);
    alarm(0);
    PBT_REQUIRE(o.setup_rc == 0, "harness: setup failed " << o.setup_rc);
    if (o.hang && o.never_fired_step < 0) { v = Verdict::fail("hang: the owning thread stopped serving its queue"); label("hang_rerun"); continue; }
    if (o.never_fired_step >= 0) {
      const Cmd &cm = c.cmds[o.never_fired_step];
      std::ostringstream m2;
      m2 << "step " << o.never_fired_step << " (" << cmdname(cm.cmd) << " ch " << cm.ch % C06_MAX_CH << " flags " << cm.flags
         << "): an enabled registration whose condition holds never fired within the ceiling";
      v = Verdict::fail(m2.str());
      label("never_fired_rerun");
      continue;  // reported only if it happens in 3 of 3 runs
    }
    uint32_t prev[C06_MAX_CH] = {0, 0, 0};
    bool was_persistent[C06_MAX_CH] = {false, false, false};
    bool nt = false, saw_eof = false;
    ChModel eofm[C06_MAX_CH];
    for (int i = 0; i < k.ncmds; i++) {
      const Cmd &cm = c.cmds[i];
      const c06b_step &s = o.s[i];
      int chx = cm.ch % C06_MAX_CH;
      if (cm.cmd == E_PEER_CLOSE && (c.kind[chx] == 1 || c.kind[chx] == 2 || c.kind[chx] == 4)) eofm[chx].eof = true;
      if (cm.cmd == E_PEER_SHUT_WR && c.kind[chx] == 1) { eofm[chx].eof = true; label("half_close"); }
      if (cm.cmd == E_REOPEN && (c.kind[chx] == 1 || c.kind[chx] == 2)) { eofm[chx].eof = false; label("descriptor_reused_with_stale_record"); }
      for (int j = 0; j < C06_MAX_CH; j++) {
        if (c.kind[j] == 0) continue;
        std::ostringstream tg;
        tg << "step " << i << " (" << cmdname(cm.cmd) << " ch " << chx << " flags " << cm.flags << (cm.outside ? " outside" : " in-thread") << "), channel " << j
           << " kind " << c.kind[j] << ": fired before " << prev[j] << " at-return " << s.fired_at_ret[j] << " settled " << s.fired_after[j] << " late " << s.fired_late[j];
        std::string tag = tg.str();
        PBT_REQUIRE(!s.wrong_thread[j], tag << ": callback ran on a thread other than the owner");
        switch (ex[i][j]) {
        case EX_SILENT:
          if (strong[i][j]) PBT_REQUIRE(s.fired_late[j] == s.fired_at_ret[j], tag << ": fired after disable/delete returned");
          else {
            // a drained persistent channel may have fired until the drain took effect (snapshot taken after a fence)
            uint32_t base = (j == chx && (cm.cmd == E_DRAIN || cm.cmd == E_REOPEN)) ? s.fired_at_ret[j] : prev[j];  // (a reopened one until the old descriptor was closed)
            PBT_REQUIRE(s.fired_late[j] == base, tag << ": fired although not registered/enabled or its condition does not hold");
          }
          break;
        case EX_EXACTLY_ONE: {
          // baseline: the moment the (re)arming call returned on the owning thread; for calls from outside on a
          // channel that was already firing persistently the count before the fence cannot be separated, so only
          // ">= 1 and silent after settling" is asserted there.
          bool is_reg_cmd = (j == chx) && (cm.cmd == E_ADD || cm.cmd == E_ENABLE || cm.cmd == E_ENABLE1);
          if (is_reg_cmd && !cm.outside) PBT_REQUIRE(s.fired_late[j] == s.fired_at_ret[j] + 1, tag << ": one-shot/dispatch registration fired " << (s.fired_late[j] - s.fired_at_ret[j]) << " times after arming");
          // (the snapshot "at return" is taken after a fence behind the outside call: stale reports of the old persistent registration are in
          //  it; afterwards the re-armed one-shot/dispatch registration reports at most once more, whenever its condition comes true)
          else if (is_reg_cmd && cm.outside && was_persistent[j]) PBT_REQUIRE(s.fired_late[j] >= prev[j] + 1 && s.fired_late[j] <= s.fired_at_ret[j] + 1, tag << ": one-shot/dispatch registration kept firing");
          else PBT_REQUIRE(s.fired_late[j] == prev[j] + 1, tag << ": one-shot/dispatch registration fired " << (s.fired_late[j] - prev[j]) << " times");
          nt = true;
          break;
        }
        case EX_AT_LEAST_ONE:
          PBT_REQUIRE(s.fired_late[j] > prev[j], tag << ": persistent registration did not fire");
          break;
        default: break;
        }
        if (c.kind[j] == 4 && eofm[j].eof && s.fired_late[j] > prev[j]) {
          // write end of a pipe whose reader is gone: the kernel reports an error condition (EPOLLERR), not a hang-up
          PBT_REQUIRE((s.last_flags[j] & F_ERROR) && s.last_fflags[j] != 0, tag << ": fired after the pipe's reader closed without TP_F_ERROR / an error code (flags " << std::hex << s.last_flags[j] << " fflags " << std::dec << s.last_fflags[j] << ")");
          label("error_flag_seen_on_pipe");
          nt = true;
        } else if (eofm[j].eof && s.fired_late[j] > prev[j]) {
          PBT_REQUIRE(s.last_flags[j] & F_EOF, tag << ": fired after the peer closed without TP_F_EOF (flags " << std::hex << s.last_flags[j] << ")");
          saw_eof = true;
        }
        prev[j] = s.fired_late[j];
        was_persistent[j] = (ex[i][j] == EX_AT_LEAST_ONE);
      }
      if (strong[i][chx]) nt = true;
    }
    if (saw_eof) { label("eof_flag_seen"); nt = true; }
    int used = 0;
    for (int j = 0; j < C06_MAX_CH; j++) used += c.kind[j] != 0;
    if (used >= 2) nt = true;
    for (int j = 0; j < C06_MAX_CH; j++) if (c.kind[j] == 3 && c.tid_of[j]) label("timer_named_after_a_descriptor");
    if (c.on_pvt) label("registered_on_the_virtual_thread");
    PBT_REQUIRE(o.res.live_fds == o.base_live_fds, "descriptors left after deleting every registration and destroying the pool: " << o.res.live_fds << " (before: " << o.base_live_fds << ")");
    if (nt) nontrivial_cur();
    return Verdict::pass();
  }
  return v;
}

static rc::Gen<FireCase> genFire() {
  return rc::gen::exec([]() {
    FireCase c;
    int nch = *range<int>(1, 3);
    for (int i = 0; i < nch; i++) {
      c.kind[i] = *rc::gen::weightedElement<int>({{4, 1}, {2, 2}, {3, 3}, {1, 4}});
      c.period[i] = *range<int>(1, 12);
    }
    // a timer may be named after the descriptor number of a socket / pipe channel of the same thread
    for (int i = 0; i < nch; i++) {
      if (c.kind[i] != 3 || *range<int>(0, 1)) continue;
      for (int j = 0; j < nch; j++) if (j != i && c.kind[j] != 3 && c.kind[j] != 0) { c.tid_of[i] = j + 1; break; }
    }
    int n = *range<int>(2, 14);
    if (*range<int>(0, 3) == 0) {
      // template "guarded connection": a socket / pipe registration plus a timer named after its descriptor number; the timer reports first,
      // then the history goes on with the descriptor's registration (whose kernel state the timer's clean-up must not have touched)
      nch = std::max(nch, 2);
      c.kind[0] = *rc::gen::weightedElement<int>({{4, 1}, {2, 2}, {1, 4}});
      c.kind[1] = 3; c.period[1] = *range<int>(1, 4); c.tid_of[1] = 1; c.tid_of[0] = 0;
      if (c.tid_of[2] == 2) c.tid_of[2] = 0;
      Cmd a; a.cmd = E_ADD; a.ch = 0; a.outside = 0; a.flags = *rc::gen::element(0, 0, (int)F_DISPATCH); a.arg = 1;
      Cmd t; t.cmd = E_ADD; t.ch = 1; t.outside = *rc::gen::weightedElement<int>({{3, 0}, {1, 1}}); t.flags = *rc::gen::element((int)F_ONESHOT, (int)F_ONESHOT, (int)F_DISPATCH, 0); t.arg = 1;
      Cmd z; z.cmd = E_SLEEP; z.ch = 0; z.outside = 0; z.flags = 0; z.arg = 2 * c.period[1] + 3;
      if (*range<int>(0, 1)) { c.cmds.push_back(a); c.cmds.push_back(t); } else { c.cmds.push_back(t); c.cmds.push_back(a); }
      c.cmds.push_back(z);
      n = *range<int>(2, 8);
    }
    for (int i = 0; i < n; i++) {
      Cmd cm;
      cm.ch = *range<int>(0, nch - 1);
      int kd = c.kind[cm.ch];
      if (kd == 4) { cm.cmd = *rc::gen::weightedElement<int>({{4, E_ADD}, {2, E_ENABLE}, {2, E_DISABLE}, {2, E_DEL}, {3, E_PEER_CLOSE}, {1, E_SLEEP}, {2, E_ENABLE1}, {1, E_DISABLE1}}); }
      else cm.cmd = (kd == 3) ? *rc::gen::weightedElement<int>({{4, E_ADD}, {2, E_ENABLE}, {3, E_DISABLE}, {2, E_DEL}, {2, E_SLEEP}})
                         : *rc::gen::weightedElement<int>({{4, E_ADD}, {2, E_ENABLE}, {3, E_DISABLE}, {2, E_DEL}, {4, E_PEER_WRITE}, {2, E_DRAIN}, {1, E_PEER_CLOSE}, {1, E_PEER_SHUT_WR}, {1, E_SLEEP}, {1, E_REOPEN}, {2, E_ENABLE1}, {1, E_DISABLE1}});
      cm.outside = *rc::gen::weightedElement<int>({{3, 0}, {1, 1}});
      cm.flags = *rc::gen::weightedElement<int>({{3, 0}, {2, F_ONESHOT}, {2, F_DISPATCH}});
      cm.arg = *range<int>(1, 30);
      c.cmds.push_back(cm);
    }
    c.plan = *bytes_upto(12);
    c.on_pvt = *rc::gen::weightedElement<int>({{3, 0}, {1, 1}});
    return c;
  });
}

// ---------------------------------------------------------------- (c) process events
struct Fault { int fn = 0, k = 0, err = 0; };
struct PCmd { int cmd = 0, ch = 0, outside = 0, flags = 0, fflags = 0, arg = 0; };
struct ProcCase {
  int nch = 1;
  int code[3] = {0, 0, 0}, by_signal[3] = {0, 0, 0}, not_child[3] = {0, 0, 0}, dirty[3] = {0, 0, 0};
  std::vector<PCmd> cmds;
  std::vector<Fault> faults;
  std::string ser() const {
    Writer w;
    w.i("nch", nch).iv("code", {code[0], code[1], code[2]}).iv("by_signal", {by_signal[0], by_signal[1], by_signal[2]}).iv("not_child", {not_child[0], not_child[1], not_child[2]}).iv("dirty", {dirty[0], dirty[1], dirty[2]}).i("ncmds", (long long)cmds.size());
    for (size_t i = 0; i < cmds.size(); i++) w.iv(("c" + std::to_string(i)).c_str(), {cmds[i].cmd, cmds[i].ch, cmds[i].outside, cmds[i].flags, cmds[i].fflags, cmds[i].arg});
    std::vector<long long> f;
    for (auto &x : faults) { f.push_back(x.fn); f.push_back(x.k); f.push_back(x.err); }
    w.iv("faults", f);
    return w.str();
  }
  static ProcCase parse(const std::string &t) {
    Reader r(t);
    ProcCase c;
    c.nch = (int)r.i("nch", 1);
    auto k = r.iv("code"), b = r.iv("by_signal"), nc = r.iv("not_child"), dt = r.iv("dirty");
    k.resize(3, 0); b.resize(3, 0); nc.resize(3, 0); dt.resize(3, 0);
    for (int i = 0; i < 3; i++) { c.code[i] = (int)k[i]; c.by_signal[i] = (int)b[i]; c.not_child[i] = (int)nc[i]; c.dirty[i] = (int)dt[i]; }
    int n = (int)r.i("ncmds");
    for (int i = 0; i < n; i++) {
      auto v = r.iv(("c" + std::to_string(i)).c_str());
      v.resize(6, 0);
      PCmd cm; cm.cmd = (int)v[0]; cm.ch = (int)v[1]; cm.outside = (int)v[2]; cm.flags = (int)v[3]; cm.fflags = (int)v[4]; cm.arg = (int)v[5];
      c.cmds.push_back(cm);
    }
    auto f = r.iv("faults");
    for (size_t i = 0; i + 2 < f.size(); i += 3) c.faults.push_back(Fault{(int)f[i], (int)f[i + 1], (int)f[i + 2]});
    return c;
  }
};
void showValue(const ProcCase &c, std::ostream &os) { os << c.ser(); }

static const char *pcmdname(int c) {
  static const char *n[] = {"?", "add", "enable", "disable", "del", "child_exit", "sleep"};
  return (c >= 0 && c <= 6) ? n[c] : "?";
}

static Verdict run_proc(const ProcCase &c) {
  c06c_case k;
  memset(&k, 0, sizeof k);
  int nch = std::max(1, std::min(c.nch, (int)C06C_MAX_CH));
  k.nch = (uint8_t)nch;
  for (int i = 0; i < C06C_MAX_CH; i++) { k.exit_code[i] = (uint8_t)c.code[i]; k.by_signal[i] = (uint8_t)(c.by_signal[i] != 0); k.not_child[i] = (uint8_t)(c.not_child[i] != 0); k.dirty[i] = (uint8_t)(c.dirty[i] != 0); }
  k.ncmds = (uint8_t)std::min<size_t>(c.cmds.size(), C06C_MAX_CMDS);
  k.plans.nfaults = (uint32_t)std::min<size_t>(c.faults.size(), TP_FAULT_MAX);
  for (uint32_t i = 0; i < k.plans.nfaults; i++) { k.plans.faults[i].fn = (uint8_t)c.faults[i].fn; k.plans.faults[i].k = (uint32_t)c.faults[i].k; k.plans.faults[i].err = c.faults[i].err; }
  // model: what every step must return and whether the channel's callback is due
  struct M { bool tpt_set = false, reg = false, dead = false, reaped = false; } m[C06C_MAX_CH];
  enum RcClass { RC_NA, RC_OK, RC_EXACT, RC_NONZERO };
  enum { RC_OPEN = 100 };  // already dead process that is not our child: 0 (then exactly one report) or ESRCH (somebody reaped it)
  struct Exp { int cls = RC_NA; int rc = 0; int fires = 0; bool strong = false; const char *why = ""; };
  std::vector<Exp> ex(k.ncmds);
  int epoll_calls = 0, opens = 0;
  for (int i = 0; i < nch; i++) if (c.dirty[i]) m[i].tpt_set = true;  // the record is already bound to the owner thread by its earlier use
  for (int i = 0; i < k.ncmds; i++) {
    const PCmd &cm = c.cmds[i];
    int ch = cm.ch % C06C_MAX_CH;
    k.cmds[i].cmd = (uint8_t)cm.cmd; k.cmds[i].ch = (uint8_t)ch; k.cmds[i].outside = (uint8_t)cm.outside;
    k.cmds[i].flags = (uint16_t)cm.flags; k.cmds[i].fflags = (uint32_t)cm.fflags; k.cmds[i].arg = (uint8_t)cm.arg;
    if (ch >= nch) continue;
    Exp &e = ex[i];
    bool bad = (cm.flags & ~0x000f) || ((cm.flags & 3) == 3) || (cm.flags & 0x000c) || (cm.fflags & ~1);
    switch (cm.cmd) {
    case P_ADD: case P_ENABLE:
      if (cm.cmd == P_ADD) m[ch].tpt_set = true;
      if (!m[ch].tpt_set) { e.cls = RC_EXACT; e.rc = EINVAL; e.why = "enable before the first add has no thread binding"; break; }
      if (bad) { e.cls = RC_NONZERO; e.why = "malformed registration"; break; }
      if (m[ch].reg) { e.cls = RC_EXACT; e.rc = EEXIST; e.why = "already registered"; break; }
      if (m[ch].reaped) { e.cls = RC_EXACT; e.rc = ESRCH; e.why = "the process is gone and reaped"; break; }
      if (c.not_child[ch] && m[ch].dead) { e.cls = RC_OPEN; break; }
      opens++;
      epoll_calls++;
      {
        int inj = 0;
        for (auto &f : c.faults) if (f.fn == F_EPOLL_CTL && f.k == epoll_calls) inj = f.err;
        if (inj) { e.cls = RC_EXACT; e.rc = inj; e.why = "epoll_ctl failure injected"; label("proc_fault_injected"); break; }
      }
      e.cls = RC_OK;
      m[ch].reg = true;
      if (m[ch].dead) { e.fires = 1; m[ch].reg = false; m[ch].reaped = true; }
      break;
    case P_DISABLE: case P_DEL:
      if (!m[ch].tpt_set) { e.cls = RC_EXACT; e.rc = EINVAL; e.why = "no thread binding yet"; break; }
      if (!m[ch].reg) { e.cls = RC_EXACT; e.rc = ENOENT; e.why = "nothing registered"; break; }
      e.cls = RC_OK; e.strong = true;
      m[ch].reg = false;
      break;
    case P_EXIT:
      if (!m[ch].dead) {
        m[ch].dead = true;
        if (m[ch].reg) { e.fires = 1; m[ch].reg = false; m[ch].reaped = !c.not_child[ch]; /* the pool thread can only reap its own children */ }
      }
      break;
    default: break;
    }
    k.cmds[i].await = (uint8_t)(e.cls == RC_OPEN ? 2 : (e.fires > 0));
  }
  Verdict v = Verdict::pass();
  for (int attempt = 0; attempt < 3; attempt++) {
    std::unique_ptr<c06c_out> op(new c06c_out());
    c06c_out &o = *op;
    alarm(300);
    c06c_run(&k, &o);
    alarm(0);
    PBT_REQUIRE(o.setup_rc == 0, "harness: setup failed " << o.setup_rc);
    if (o.never_fired_step >= 0) {
      const PCmd &cm = c.cmds[o.never_fired_step];
      std::ostringstream m2;
      m2 << "step " << o.never_fired_step << " (" << pcmdname(cm.cmd) << " ch " << cm.ch % C06C_MAX_CH << "): the registered process event never fired although the process has exited";
      v = Verdict::fail(m2.str());
      label("never_fired_rerun");
      continue;  // reported only if it happens in 3 of 3 runs
    }
    if (o.hang) { v = Verdict::fail("hang: the owning thread stopped serving its queue"); label("hang_rerun"); continue; }
    uint32_t prev[C06C_MAX_CH] = {0, 0, 0};
    int nreg = 0, fired_total = 0, opens_dyn = 0;
    bool nt = false;
    for (int i = 0; i < k.ncmds; i++) {
      const PCmd &cm = c.cmds[i];
      int ch = cm.ch % C06C_MAX_CH;
      if (ch >= nch) continue;
      const c06c_step &s = o.s[i];
      std::ostringstream tg;
      tg << "step " << i << " (" << pcmdname(cm.cmd) << " ch " << ch << " flags " << cm.flags << " fflags " << cm.fflags << (cm.outside ? " outside" : " in-thread") << ")";
      std::string tag = tg.str();
      Exp e_dyn = ex[i];
      if (e_dyn.cls == RC_OPEN) {
        PBT_REQUIRE(s.rc == 0 || s.rc == ESRCH, tag << ": returned " << s.rc << " for a process that has exited and is not our child (0 or ESRCH expected)");
        if (s.rc == 0) { e_dyn.fires = 1; opens_dyn++; nreg++; label("proc_not_child_reported_after_exit"); }
      }
      const Exp &e = e_dyn;
      switch (e.cls) {
      case RC_OK: PBT_REQUIRE(s.rc == 0, tag << ": returned " << s.rc << ", expected success"); break;
      case RC_EXACT: PBT_REQUIRE(s.rc == e.rc, tag << ": returned " << s.rc << ", expected " << e.rc << " (" << e.why << ")"); break;
      case RC_NONZERO: PBT_REQUIRE(s.rc != 0, tag << ": accepted (" << e.why << ")"); label("proc_malformed_refused"); break;
      default: break;
      }
      if (e.cls == RC_OK && (cm.cmd == P_ADD || cm.cmd == P_ENABLE)) nreg++;
      if (e.cls == RC_OK && (cm.cmd == P_DISABLE || cm.cmd == P_DEL)) { nreg--; label("proc_removed_while_armed"); nt = true; }
      if (e.fires) { nreg--; fired_total++; }
      for (int j = 0; j < nch; j++) {
        uint32_t want = prev[j] + ((j == ch) ? (uint32_t)e.fires : 0u);
        PBT_REQUIRE(s.fired_late[j] == want, tag << ", process " << j << ": callback count " << s.fired_late[j] << " (at return " << s.fired_at_ret[j] << ", settled " << s.fired_after[j]
                                                 << "), expected " << want << (e.fires && j == ch ? " (exactly one report of the exit)" : " (nothing may fire)"));
        if (e.strong && j == ch) PBT_REQUIRE(s.fired_late[j] == s.fired_at_ret[j], tag << ": fired after disable/delete returned");
        PBT_REQUIRE(!o.wrong_thread[j], tag << ": callback ran on a thread other than the owner");
        prev[j] = s.fired_late[j];
      }
      if (e.fires) PBT_REQUIRE(s.tpdata[ch] == 0, tag << ": the user record still carries registration state after the one report (tpdata " << std::hex << s.tpdata[ch] << ")");
      PBT_REQUIRE(s.live_fds == o.base_live_fds + (uint32_t)nreg, tag << ": " << s.live_fds - o.base_live_fds << " process descriptor(s) open, " << nreg << " registration(s) alive");
    }
    for (int j = 0; j < nch; j++) {
      if (prev[j] == 0) continue;
      PBT_REQUIRE(o.last_event[j] == EV_PROC, "process " << j << ": callback carried event kind " << o.last_event[j]);
      PBT_REQUIRE(o.last_fflags[j] == 1u, "process " << j << ": callback filter flags " << o.last_fflags[j] << ", expected TP_FF_P_EXIT");
      int st = (int)o.last_data[j];
      if (c.not_child[j]) { label("proc_not_child_exit_reported"); continue; }  // the status of a process that is not our child is not available to the pool thread
      if (c.by_signal[j]) PBT_REQUIRE(WIFSIGNALED(st) && WTERMSIG(st) == SIGKILL, "process " << j << " was killed by SIGKILL, callback data (wait status) is " << st);
      else PBT_REQUIRE(WIFEXITED(st) && WEXITSTATUS(st) == (c.code[j] & 0xff), "process " << j << " exited with " << (c.code[j] & 0xff) << ", callback data (wait status) is " << st);
      label(c.by_signal[j] ? "proc_killed_reported" : "proc_exit_reported");
    }
    PBT_REQUIRE(o.pidfd_opens == (uint32_t)(opens + opens_dyn), "process descriptors opened: " << o.pidfd_opens << ", the history needs " << opens + opens_dyn);
    PBT_REQUIRE(o.res.live_fds == o.pre_live_fds, "descriptors left after deleting every registration and destroying the pool: " << o.res.live_fds << " (before: " << o.pre_live_fds << ")");
    if (fired_total) nt = true;
    for (int j = 0; j < nch; j++) if (c.dirty[j]) label("proc_record_with_stale_read_state");
    if (nt) nontrivial_cur();
    return Verdict::pass();
  }
  return v;
}

static rc::Gen<ProcCase> genProc() {
  return rc::gen::exec([]() {
    ProcCase c;
    c.nch = *rc::gen::weightedElement<int>({{3, 1}, {2, 2}, {1, 3}});
    for (int i = 0; i < 3; i++) {
      c.code[i] = *rc::gen::element(0, 1, 7, 42, 255);
      c.by_signal[i] = *rc::gen::weightedElement<int>({{4, 0}, {1, 1}});
      c.dirty[i] = *rc::gen::weightedElement<int>({{3, 0}, {1, 1}});  // the record was used for a (now dead, disabled) read event before
      c.not_child[i] = *rc::gen::weightedElement<int>({{3, 0}, {1, 1}});  // a grandchild re-parented away: pidfd_open accepts any visible process
    }
    int n = *range<int>(2, 9);
    for (int i = 0; i < n; i++) {
      PCmd cm;
      cm.ch = *range<int>(0, c.nch - 1);
      cm.cmd = *rc::gen::weightedElement<int>({{5, (int)P_ADD}, {2, (int)P_ENABLE}, {2, (int)P_DISABLE}, {2, (int)P_DEL}, {4, (int)P_EXIT}, {1, (int)P_SLEEP}});
      cm.outside = *rc::gen::weightedElement<int>({{3, 0}, {1, 1}});
      cm.flags = *rc::gen::weightedElement<int>({{4, 0}, {2, (int)F_ONESHOT}, {2, (int)F_DISPATCH}, {1, 3}, {1, 0x10}});
      cm.fflags = *rc::gen::weightedElement<int>({{4, 0}, {3, 1}, {1, 2}});
      cm.arg = *range<int>(1, 10);
      c.cmds.push_back(cm);
    }
    bool any_not_child = false;
    for (int i = 0; i < c.nch; i++) any_not_child |= c.not_child[i] != 0;
    if (!any_not_child && *range<int>(0, 7) == 0) c.faults.push_back(Fault{F_EPOLL_CTL, *range<int>(1, 3), *rc::gen::element<int>(ENOMEM, ENOSPC)});
    return c;
  });
}

// ---------------------------------------------------------------- (k) a sibling's callback removes a registration that is ready too
struct KillCase {
  int nch = 2, busy_ms = 5;
  int kind[C06K_MAX_CH] = {1, 1, 1, 1, 1, 1}, flags[C06K_MAX_CH] = {0, 0, 0, 0, 0, 0}, period[C06K_MAX_CH] = {1, 1, 1, 1, 1, 1};
  int kills[C06K_MAX_CH] = {0, 0, 0, 0, 0, 0}, kill_op[C06K_MAX_CH] = {0, 0, 0, 0, 0, 0};
  Bytes plan;
  static std::vector<long long> v6(const int *a) { return std::vector<long long>(a, a + C06K_MAX_CH); }
  std::string ser() const {
    Writer w;
    w.i("nch", nch).i("busy_ms", busy_ms).iv("kind", v6(kind)).iv("flags", v6(flags)).iv("period", v6(period)).iv("kills", v6(kills)).iv("kill_op", v6(kill_op)).b("plan", plan);
    return w.str();
  }
  static KillCase parse(const std::string &t) {
    Reader r(t);
    KillCase c;
    c.nch = (int)r.i("nch", 2); c.busy_ms = (int)r.i("busy_ms", 5);
    auto get = [&](const char *n, int *dst, int def) { auto v = r.iv(n); v.resize(C06K_MAX_CH, def); for (int i = 0; i < C06K_MAX_CH; i++) dst[i] = (int)v[i]; };
    get("kind", c.kind, 1); get("flags", c.flags, 0); get("period", c.period, 1); get("kills", c.kills, 0); get("kill_op", c.kill_op, 0);
    c.plan = r.b("plan");
    return c;
  }
};
void showValue(const KillCase &c, std::ostream &os) { os << c.ser(); }

static Verdict run_kill(const KillCase &c) {
  c06k_case k;
  memset(&k, 0, sizeof k);
  int nch = std::max(2, std::min(c.nch, (int)C06K_MAX_CH));
  k.nch = (uint8_t)nch;
  k.busy_ms = (uint8_t)std::max(1, std::min(c.busy_ms, 30));
  for (int i = 0; i < C06K_MAX_CH; i++) {
    int kd = (c.kind[i] >= 1 && c.kind[i] <= 3) ? c.kind[i] : 1;
    k.kind[i] = (uint8_t)kd;
    k.flags[i] = (uint16_t)(c.flags[i] == (int)F_ONESHOT || c.flags[i] == (int)F_DISPATCH ? c.flags[i] : 0);
    k.period_ms[i] = (uint8_t)std::max(1, std::min(c.period[i], 3));
    k.kills[i] = (uint8_t)(c.kills[i] & ((1 << nch) - 1) & ~(1 << i));
    k.kill_op[i] = (uint8_t)(c.kill_op[i] != 0);
  }
  k.plans.plan_len = (uint32_t)std::min<size_t>(c.plan.size(), TP_PLAN_MAX);
  memcpy(k.plans.plan, c.plan.data(), k.plans.plan_len);
  Verdict v = Verdict::pass();
  for (int attempt = 0; attempt < 3; attempt++) {
    std::unique_ptr<c06k_out> op(new c06k_out());
    c06k_out &o = *op;
    alarm(300);
    c06k_run(&k, &o);
    alarm(0);
    PBT_REQUIRE(o.setup_rc == 0, "harness: setup failed " << o.setup_rc);
    if (o.hang) { v = Verdict::fail("hang: the owning thread stopped serving its queue"); label("hang_rerun"); continue; }
    if (o.never_fired) {
      std::ostringstream m;
      m << "registration(s) with mask " << o.never_fired << " were added successfully, made ready, never removed - and never reported";
      v = Verdict::fail(m.str());
      label("never_fired_rerun");
      continue;  // reported only if it happens in 3 of 3 runs
    }
    PBT_REQUIRE(!o.wrong_thread, "a callback ran on a thread other than the owner");
    int removed_at[C06K_MAX_CH], fired[C06K_MAX_CH] = {0, 0, 0, 0, 0, 0};
    for (int i = 0; i < C06K_MAX_CH; i++) removed_at[i] = -1;
    bool removed_ready = false;
    int first_cb = -1;
    for (uint32_t i = 0; i < o.nlog; i++) {
      const c06k_rec &r = o.log[i];
      int ch = r.ch % C06K_MAX_CH;
      static const int evk[4] = {0, EV_READ, EV_WRITE, EV_TIMER};
      if (r.type == 3) { PBT_REQUIRE(r.rc == 0, "add of channel " << ch << " failed with " << r.rc); continue; }
      if (r.type == 2) {
        if (r.rc == 0 && removed_at[ch] < 0) { removed_at[ch] = (int)i; if (!fired[ch]) removed_ready = true; }
        continue;
      }
      if (first_cb < 0) first_cb = ch;
      PBT_REQUIRE(removed_at[ch] < 0, "channel " << ch << " (" << (k.kind[ch] == 3 ? "timer" : k.kind[ch] == 2 ? "write" : "read") << ", flags " << k.flags[ch] << "): callback ran (log index " << i
                                          << ") after its " << "registration was " << "removed on the owning thread with return 0 (log index " << removed_at[ch] << ", by the callback of a sibling that was ready at the same time)");
      PBT_REQUIRE(r.event == evk[k.kind[ch]], "channel " << ch << ": callback carried event kind " << (int)r.event << ", registered " << evk[k.kind[ch]]);
      fired[ch]++;
      if (k.flags[ch] && k.kind[ch] != 3) PBT_REQUIRE(fired[ch] <= 1, "channel " << ch << ": one-shot / dispatch registration reported " << fired[ch] << " times");
    }
    PBT_REQUIRE(o.res.live_fds == o.pre_live_fds, "descriptors left after the pool was destroyed: " << o.res.live_fds << " (before: " << o.pre_live_fds << ")");
    if (o.log_overflow) label("kill_log_full");
    if (removed_ready) { label("kill_removed_before_its_first_report"); nontrivial_cur(); }
    for (int i = 0; i < nch; i++) if (removed_at[i] >= 0) { label(k.kill_op[first_cb >= 0 ? first_cb : 0] ? "kill_seen_disable" : "kill_seen_delete"); break; }
    return Verdict::pass();
  }
  return v;
}

static rc::Gen<KillCase> genKill() {
  return rc::gen::exec([]() {
    KillCase c;
    c.nch = *rc::gen::weightedElement<int>({{3, 2}, {3, 3}, {2, 4}, {1, 6}});
    c.busy_ms = *rc::gen::element(2, 5, 10);
    int op_all = *rc::gen::weightedElement<int>({{3, 0}, {1, 1}, {1, 2}});  // everybody deletes / disables / mixed
    for (int i = 0; i < C06K_MAX_CH; i++) {
      c.kind[i] = *rc::gen::weightedElement<int>({{3, 1}, {1, 2}, {2, 3}});
      c.flags[i] = *rc::gen::weightedElement<int>({{2, 0}, {1, (int)F_ONESHOT}, {1, (int)F_DISPATCH}});
      c.period[i] = *range<int>(1, 3);
      c.kills[i] = *rc::gen::weightedElement<int>({{1, 0}, {3, 63}, {2, *range<int>(0, 63)}});
      c.kill_op[i] = op_all == 2 ? *range<int>(0, 1) : op_all;
    }
    c.plan = *bytes_upto(8);
    return c;
  });
}

// unit boundaries enumerated for every unit x one-shot/periodic x relative/absolute (part (a), exhaustive over the listed values)
static void unit_table(double) {
  set_exhaustive(true);
  static const unsigned long long vals[] = {0, 1, 999, 1000, 1001, 999999, 1000000, 1000001, 999999999ull, 1000000000ull, 1000000001ull,
                                            4294967295ull, 4294967296ull, 4294967297ull, 1500, 1500000, 1500000000ull, 86400000001ull};
  for (unsigned unit = 0; unit < 4; unit++)
    for (int fl : {0, (int)F_ONESHOT, (int)F_DISPATCH})
      for (unsigned abs : {0u, (unsigned)FF_ABSTIME})
        for (unsigned long long v : vals) {
          ProgCase c;
          c.ident_kind = 3;
          Op a; a.op = 0; a.event = EV_TIMER; a.flags = fl; a.fflags = unit | abs; a.data = v;
          Op d; d.op = 3; d.event = EV_TIMER;
          c.ops = {a, d};
          if (!enum_case(c.ser(), [&]() { return run_prog(c); })) return;
        }
}

int main(int argc, char **argv) {
  add_check<ProgCase>("ev_program", 60000, 100, genProg, run_prog);
  add_enum_check("ev_timer_unit_table", 100, unit_table, [](const std::string &t) { return run_prog(ProgCase::parse(t)); });
  add_check<FireCase>("ev_fire", 160, 100, genFire, run_fire);
  add_check<ProcCase>("ev_proc", 250, 100, genProc, run_proc);
  add_check<KillCase>("ev_sibling_removal", 400, 100, genKill, run_kill);
  disable_shrinking("ev_fire");  // a failing history costs up to 3 x ceiling to re-run; histories are short (<= 14 commands)
  return driver_main(argc, argv);
}
