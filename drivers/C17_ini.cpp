// C17 -- the INI store behaves like an ordered map and survives a text round trip.
// Stateful check: a generated history of parse/set/get/find/gen/round-trip commands is run
// against shims/ini_shim.c (one build variant) and against an in-memory model (ordered list of
// classified lines). After EVERY command the whole store is compared with the model through the
// public API only: calc_size, gen (exact buffer), sect_enum + sect_val_enum.
// The Case is a vector<Cmd>; it shrinks as one value and is replayable from its text form.
#include "pbt.hpp"
#include "../shims/ini_abi.h"
#include <algorithm>
#include <cerrno>
#include <climits>

using namespace pbt;

// ------------------------------------------------------------------ predicates (known-finding classes)
static const char *P_H6 = "c17_val_find_ignores_case";   // ini_sect_val_find() compares with mem_cmpin (H-UT-6)
static const char *P_GEN = "c17_gen_checks_total_not_remaining";  // ini_buf_gen() line test against buf_size, not remaining (H-UT-7)
static const char *P_DUP = "c17_dup_first_match_wins";   // duplicates: first match returned, property says most recent
static const char *P_POW10 = "c17_set_num_pow10";        // usize2str/ssize2str: exact powers of ten (H-UT-1)
static const char *P_MIN = "c17_set_int_min";            // ssize2str(SSIZE_MIN) (H-UT-2)

// ------------------------------------------------------------------ case
enum { OP_PARSE = 0, OP_SET, OP_SET_INT, OP_SET_UINT, OP_GET, OP_GET_INT, OP_GET_UINT, OP_SECT_FIND, OP_VAL_FIND,
       OP_GEN, OP_ROUNDTRIP, OP_N };
static const char *OPN[] = {"parse", "set", "set_int", "set_uint", "get", "get_int", "get_uint", "sect_find", "val_find",
                            "gen", "roundtrip"};

struct Cmd {
  int op = 0, ci = 0, scstr = 0, kcstr = 0, mode = 0;
  std::string s, k, pat;
  uint32_t vlen = 0;
  int64_t iv = 0;
  uint64_t uv = 0;
  // value (SET) / text (PARSE): pat repeated up to vlen bytes
  std::string value() const {
    if (vlen == 0) return std::string();
    if (pat.empty()) return std::string(vlen, 'v');
    std::string r;
    r.reserve(vlen);
    while (r.size() < vlen) r.append(pat, 0, std::min<size_t>(pat.size(), vlen - r.size()));
    return r;
  }
  void set_literal(const std::string &t) { pat = t; vlen = (uint32_t)t.size(); }
};
struct Case {
  int cls = 0;  // generator class only (0 uniq, 1 casevar, 2 dup, 3 wild); the oracle does not trust it
  std::vector<Cmd> cmds;
  std::string ser() const {
    Writer w;
    w.i("cls", cls).u("n", cmds.size());
    for (size_t i = 0; i < cmds.size(); i++) {
      const Cmd &c = cmds[i];
      std::string p = "c" + std::to_string(i);
      w.o << "#" << i << " " << OPN[c.op % OP_N] << "\n";
      w.iv(p.c_str(), {c.op, c.ci, c.scstr, c.kcstr, c.mode, (long long)c.vlen});
      if (!c.s.empty()) w.s((p + ".s").c_str(), c.s);
      if (!c.k.empty()) w.s((p + ".k").c_str(), c.k);
      if (!c.pat.empty()) w.s((p + ".p").c_str(), c.pat);
      if (c.iv) w.i((p + ".iv").c_str(), c.iv);
      if (c.uv) w.u((p + ".uv").c_str(), c.uv);
    }
    return w.str();
  }
  static Case parse(const std::string &t) {
    Reader r(t);
    Case c;
    c.cls = (int)r.i("cls");
    size_t n = (size_t)r.u("n");
    for (size_t i = 0; i < n; i++) {
      std::string p = "c" + std::to_string(i);
      std::vector<long long> v = r.iv(p.c_str());
      v.resize(6, 0);
      Cmd m;
      m.op = (int)((v[0] % OP_N + OP_N) % OP_N); m.ci = v[1] != 0; m.scstr = v[2] != 0; m.kcstr = v[3] != 0;
      m.mode = (int)v[4]; m.vlen = (uint32_t)std::min<long long>(std::max<long long>(v[5], 0), 1 << 20);
      m.s = r.s((p + ".s").c_str()); m.k = r.s((p + ".k").c_str()); m.pat = r.s((p + ".p").c_str());
      m.iv = r.i((p + ".iv").c_str()); m.uv = r.u((p + ".uv").c_str());
      c.cmds.push_back(m);
    }
    return c;
  }
};
void showValue(const Case &c, std::ostream &os) { os << c.ser(); }

// ------------------------------------------------------------------ model
enum { T_EMPTY = 0, T_INVALID = 1, T_COMMENT = 2, T_SECTION = 3, T_VALUE = 4 };
struct Line {
  int type = T_EMPTY;
  std::string data, name, val;
  uint64_t stamp = 0;  // "most recently parsed or set" clock
  size_t alloc = 0;    // model of data_allocated_size (labels / non-trivial rule only)
};
// line classification as documented by ini_buf_parse(): first byte ';' '#' comment, '[' ... last ']' section,
// otherwise first '=' splits name/value, otherwise invalid; zero length = empty line.
static Line classify(const std::string &d) {
  Line l;
  l.data = d;
  l.alloc = d.size() + 16;
  if (d.empty()) { l.type = T_EMPTY; return l; }
  if (d[0] == ';' || d[0] == '#') { l.type = T_COMMENT; return l; }
  if (d[0] == '[') {
    size_t p = d.rfind(']');
    if (p == std::string::npos) { l.type = T_INVALID; return l; }
    l.type = T_SECTION;
    l.name = d.substr(1, p - 1);
    return l;
  }
  size_t p = d.find('=');
  if (p == std::string::npos) { l.type = T_INVALID; return l; }
  l.type = T_VALUE;
  l.name = d.substr(0, p);
  l.val = d.substr(p + 1);
  return l;
}
// text -> lines: LF terminates a line, one CR directly before it belongs to the terminator;
// a last line without LF is kept as it is (buf_get_next_line() contract).
static std::vector<std::string> split_lines(const std::string &t) {
  std::vector<std::string> r;
  size_t i = 0;
  while (i < t.size()) {
    size_t lf = t.find('\n', i);
    if (lf == std::string::npos) { r.push_back(t.substr(i)); break; }
    std::string l = t.substr(i, lf - i);
    if (!l.empty() && l.back() == '\r') l.pop_back();
    r.push_back(l);
    i = lf + 1;
  }
  return r;
}
static bool eq_name(const std::string &a, const std::string &b, bool ci) {
  if (a.size() != b.size()) return false;
  if (!ci) return a == b;
  for (size_t i = 0; i < a.size(); i++) {
    unsigned char x = (unsigned char)a[i], y = (unsigned char)b[i];
    if (x >= 'A' && x <= 'Z') x |= 32;
    if (y >= 'A' && y <= 'Z') y |= 32;
    if (x != y) return false;
  }
  return true;
}
struct Model {
  std::vector<Line> lines;
  uint64_t clock = 0;
  size_t text_size() const {
    size_t n = 0;
    for (auto &l : lines) n += l.data.size() + 2;
    return n;
  }
  std::string text() const {
    std::string t;
    for (auto &l : lines) { t += l.data; t += "\r\n"; }
    return t;
  }
  void parse(const std::string &t) {
    for (auto &d : split_lines(t)) {
      Line l = classify(d);
      l.stamp = ++clock;
      lines.push_back(l);
    }
  }
  void reparse() {  // gen -> destroy -> create -> parse
    std::string t = text();
    lines.clear();
    parse(t);
  }
  // first section line whose name matches
  int sect_first(const std::string &s, bool ci) const {
    for (size_t i = 0; i < lines.size(); i++)
      if (lines[i].type == T_SECTION && eq_name(lines[i].name, s, ci)) return (int)i;
    return -1;
  }
  int val_first(int sect, const std::string &k, bool ci) const {
    for (size_t i = (size_t)sect + 1; i < lines.size(); i++) {
      if (lines[i].type == T_SECTION) break;
      if (lines[i].type == T_VALUE && eq_name(lines[i].name, k, ci)) return (int)i;
    }
    return -1;
  }
  // documented library policy: first matching section, first matching value in it
  int lookup_first(const std::string &s, const std::string &k, bool ci_s, bool ci_k) const {
    int so = sect_first(s, ci_s);
    if (so < 0) return -1;
    return val_first(so, k, ci_k);
  }
  // property text: "the value most recently parsed or set for it"
  int lookup_recent(const std::string &s, const std::string &k, bool ci) const {
    int best = -1;
    bool in = false;
    for (size_t i = 0; i < lines.size(); i++) {
      if (lines[i].type == T_SECTION) { in = eq_name(lines[i].name, s, ci); continue; }
      if (!in || lines[i].type != T_VALUE || !eq_name(lines[i].name, k, ci)) continue;
      if (best < 0 || lines[i].stamp > lines[(size_t)best].stamp) best = (int)i;
    }
    return best;
  }
  struct SetInfo { bool new_sect = false, new_key = false, before_blank = false, realloc_ = false, grow = false, shrink = false; int idx = -1; };
  // ini_val_set() as documented by its comments: "No section, add" (at the end), "No value in section, add" /
  // "Add to section end" / "Before empty lines", otherwise replace the value of the found line.
  SetInfo set(const std::string &s, const std::string &k, const std::string &v, bool key_ci) {
    SetInfo r;
    int so = sect_first(s, false);
    if (so < 0) {
      Line l;
      l.type = T_SECTION; l.name = s; l.data = "[" + s + "]"; l.alloc = l.data.size() + 16; l.stamp = ++clock;
      lines.push_back(l);
      so = (int)lines.size() - 1;
      r.new_sect = true;
    }
    int vo = val_first(so, k, key_ci);
    if (vo < 0) {
      size_t pos = (size_t)so + 1;
      while (pos < lines.size() && lines[pos].type != T_SECTION) pos++;
      size_t end = pos;
      while (pos > 0 && lines[pos - 1].type == T_EMPTY) pos--;
      r.before_blank = (pos != end);
      Line l;
      l.type = T_VALUE; l.name = k; l.val = v; l.data = k + "=" + v; l.alloc = l.data.size() + 16; l.stamp = ++clock;
      lines.insert(lines.begin() + (long)pos, l);
      r.new_key = true;
      r.idx = (int)pos;
    } else {
      Line &l = lines[(size_t)vo];
      size_t nsz = l.name.size() + 1 + v.size();
      r.grow = nsz > l.data.size();
      r.shrink = nsz < l.data.size();
      if (!(l.alloc > nsz)) { r.realloc_ = true; l.alloc = nsz + 16; }
      l.val = v;
      l.data = l.name + "=" + v;
      l.stamp = ++clock;
      r.idx = vo;
    }
    return r;
  }
};

// ------------------------------------------------------------------ domain
// names an INI text can carry and the API can address (DESIGN 3.1): see notes/C17.md
static bool sect_representable(const std::string &s) {
  if (s.empty()) return false;
  for (unsigned char c : s) if (c == '\n' || c == '\r' || c == 0) return false;
  return true;
}
static bool key_representable(const std::string &k) {
  if (k.empty()) return false;
  if (k[0] == ';' || k[0] == '#' || k[0] == '[') return false;
  for (unsigned char c : k) if (c == '\n' || c == '\r' || c == 0 || c == '=') return false;
  return true;
}
static bool val_representable(const std::string &v) {
  for (unsigned char c : v) if (c == '\n') return false;
  return true;
}
static bool text_in_domain(const std::string &t) {
  for (unsigned char c : t) if (c == 0) return false;
  return true;
}
static bool canon_int(const std::string &v, int64_t *out) {
  size_t i = 0;
  bool neg = false;
  if (i < v.size() && v[i] == '-') { neg = true; i++; }
  if (i >= v.size() || v.size() - i > 19) return false;
  if (v[i] == '0' && v.size() - i > 1) return false;
  unsigned long long a = 0;
  for (; i < v.size(); i++) {
    if (v[i] < '0' || v[i] > '9') return false;
    a = a * 10 + (unsigned)(v[i] - '0');
  }
  if (neg) { if (a > 9223372036854775808ull) return false; if (a == 0) return false; *out = (int64_t)(0 - a); }
  else { if (a > 9223372036854775807ull) return false; *out = (int64_t)a; }
  return true;
}
static bool canon_uint(const std::string &v, uint64_t *out) {
  if (v.empty() || v.size() > 20) return false;
  if (v[0] == '0' && v.size() > 1) return false;
  unsigned __int128 a = 0;
  for (char ch : v) {
    if (ch < '0' || ch > '9') return false;
    a = a * 10 + (unsigned)(ch - '0');
  }
  if (a > (unsigned __int128)UINT64_MAX) return false;
  *out = (uint64_t)a;
  return true;
}
static bool is_pow10(uint64_t a) {
  if (a < 10) return false;
  while (a % 10 == 0) a /= 10;
  return a == 1;
}
static std::string show(const std::string &s) {
  std::string o;
  for (unsigned char c : s) {
    if (o.size() > 60) { o += "..."; break; }
    if (c >= 0x20 && c < 0x7f && c != '\\') o.push_back((char)c);
    else { char b[8]; snprintf(b, sizeof b, "\\x%02x", c); o += b; }
  }
  return "\"" + o + "\"(" + std::to_string(s.size()) + ")";
}

// ------------------------------------------------------------------ library handle
struct Lib {
  void *h = nullptr;
  Lib() { int rc = 0; h = si_create(&rc); }
  ~Lib() { if (h) si_destroy(h); }
  void reset() { if (h) si_destroy(h); int rc = 0; h = si_create(&rc); }
  Lib(const Lib &) = delete;
  Lib &operator=(const Lib &) = delete;
};
static si_name nm(const std::string &s, int cstr) { return si_name{(const uint8_t *)s.data(), s.size(), cstr}; }

struct Snapshot {  // library-reported offsets of the last full enumeration
  std::vector<size_t> sect_off;               // per model section (in order)
  std::vector<int> sect_line;                 // model line index of that section
  std::vector<std::vector<size_t>> val_off;   // per section, per entry
  std::vector<std::vector<int>> val_line;
};

// gen into buf_size bytes; returns verdict of the bound clauses. expect_text==nullptr: model-free mode.
static bool gen_overflow_class(const std::vector<size_t> &line_sizes, size_t buf_size) {
  size_t off = 0;
  for (size_t ls : line_sizes) {
    if (ls + 2 > buf_size) return false;  // the library stops here with an error
    off += ls + 2;
    if (off > buf_size) return true;
  }
  return false;
}

// full comparison of the store with the model through the public API
static Verdict check_store(Lib &lib, const Model &m, Snapshot &snap, const std::string &ctx) {
  size_t sz = (size_t)-1;
  int rc = si_calc_size(lib.h, &sz);
  size_t msz = m.text_size();
  PBT_REQUIRE(rc == 0, ctx << ": ini_buf_calc_size rc=" << rc);
  PBT_REQUIRE(sz == msz, ctx << ": ini_buf_calc_size=" << sz << " but the model store has " << msz << " bytes (" << m.lines.size() << " lines)");
  if (msz > 0) {
    std::vector<uint8_t> out(msz);
    size_t sr = 0, over = 0;
    int diff = 0;
    rc = si_gen(lib.h, msz, 64, out.data(), &sr, &over, &diff);
    PBT_REQUIRE(rc == 0, ctx << ": ini_buf_gen into a buffer of exactly calc_size=" << msz << " bytes failed rc=" << rc);
    PBT_REQUIRE(over == 0, ctx << ": ini_buf_gen(buf_size=calc_size=" << msz << ") modified " << over << " bytes past the buffer");
    PBT_REQUIRE(sr == msz, ctx << ": ini_buf_gen wrote " << sr << " bytes, calc_size said " << msz);
    PBT_REQUIRE(diff == 0, ctx << ": two ini_buf_gen runs disagree");
    std::string got((const char *)out.data(), sr), want = m.text();
    if (got != want) {
      size_t p = 0;
      while (p < got.size() && p < want.size() && got[p] == want[p]) p++;
      size_t b = p > 12 ? p - 12 : 0;
      PBT_REQUIRE(false, ctx << ": generated text differs from the model at byte " << p << ": got " << show(got.substr(b, 40))
                             << " want " << show(want.substr(b, 40)));
    }
  }
  // enumeration: sections in file order, entries of each section in file order
  snap = Snapshot();
  for (size_t i = 0; i < m.lines.size(); i++) {
    if (m.lines[i].type != T_SECTION) continue;
    snap.sect_line.push_back((int)i);
    snap.val_line.emplace_back();
    for (size_t j = i + 1; j < m.lines.size() && m.lines[j].type != T_SECTION; j++)
      if (m.lines[j].type == T_VALUE) snap.val_line.back().push_back((int)j);
  }
  size_t off = 0, idx = 0;
  for (;; off++, idx++) {
    const uint8_t *n = nullptr;
    size_t nn = 0;
    rc = si_sect_enum(lib.h, &off, &n, &nn);
    if (rc != 0) break;
    PBT_REQUIRE(idx < snap.sect_line.size(), ctx << ": ini_sect_enum yields more than the " << snap.sect_line.size() << " sections of the model");
    const Line &sl = m.lines[(size_t)snap.sect_line[idx]];
    std::string got((const char *)n, nn);
    PBT_REQUIRE(got == sl.name, ctx << ": section #" << idx << " enumerates as " << show(got) << ", model has " << show(sl.name));
    snap.sect_off.push_back(off);
    snap.val_off.emplace_back();
    size_t vo = 0, vi = 0;
    for (;; vo++, vi++) {
      const uint8_t *kn = nullptr, *vv = nullptr;
      size_t knn = 0, vvn = 0;
      int r2 = si_val_enum(lib.h, off, &vo, &kn, &knn, &vv, &vvn);
      if (r2 != 0) break;
      PBT_REQUIRE(vi < snap.val_line[idx].size(), ctx << ": section " << show(sl.name) << " enumerates more than its " << snap.val_line[idx].size() << " entries");
      const Line &vl = m.lines[(size_t)snap.val_line[idx][vi]];
      std::string gk((const char *)kn, knn), gv((const char *)vv, vvn);
      PBT_REQUIRE(gk == vl.name && gv == vl.val, ctx << ": section " << show(sl.name) << " entry #" << vi << " enumerates as " << show(gk) << "="
                                                   << show(gv) << ", model (file order) has " << show(vl.name) << "=" << show(vl.val));
      snap.val_off.back().push_back(vo);
    }
    PBT_REQUIRE(vi == snap.val_line[idx].size(), ctx << ": section " << show(sl.name) << " enumerates " << vi << " entries, model has " << snap.val_line[idx].size());
  }
  PBT_REQUIRE(idx == snap.sect_line.size(), ctx << ": ini_sect_enum yields " << idx << " sections, model has " << snap.sect_line.size());
  return Verdict::pass();
}

// model-free invariants (store tainted by arguments no INI text can carry): size == bytes written, and the
// text the store generates is a fixed point of parse->gen after one normalisation (a tainted line may hold a
// line break, so the first re-parse may legitimately split it).
static Verdict gen_all(Lib &l, std::vector<uint8_t> &out, const std::string &ctx) {
  size_t sz = 0, sr = 0, over = 0;
  int diff = 0;
  int rc = si_calc_size(l.h, &sz);
  PBT_REQUIRE(rc == 0, ctx << ": ini_buf_calc_size rc=" << rc);
  out.assign(sz, 0);
  if (sz == 0) return Verdict::pass();
  rc = si_gen(l.h, sz, 64, out.data(), &sr, &over, &diff);
  PBT_REQUIRE(rc == 0 && sr == sz && over == 0 && diff == 0,
              ctx << ": (model-free) gen into calc_size=" << sz << " rc=" << rc << " wrote " << sr << " overrun " << over);
  return Verdict::pass();
}
static Verdict check_store_free(Lib &lib, const std::string &ctx) {
  std::vector<uint8_t> t1, t2, t3;
  Verdict v = gen_all(lib, t1, ctx);
  if (!v.ok || t1.empty()) return v;
  Lib l2;
  int rc = si_parse(l2.h, t1.data(), t1.size());
  PBT_REQUIRE(rc == 0, ctx << ": (model-free) reparse rc=" << rc);
  v = gen_all(l2, t2, ctx);
  if (!v.ok || t2.empty()) return v;
  Lib l3;
  rc = si_parse(l3.h, t2.data(), t2.size());
  PBT_REQUIRE(rc == 0, ctx << ": (model-free) reparse rc=" << rc);
  v = gen_all(l3, t3, ctx);
  if (!v.ok) return v;
  PBT_REQUIRE(t3 == t2, ctx << ": (model-free) gen(parse(T)) != T for a text T that gen produced from a parsed store");
  return Verdict::pass();
}

struct Res { bool found; std::string val; bool operator==(const Res &o) const { return found == o.found && (!found || val == o.val); } };
static Res res_of(const Model &m, int idx) { return idx < 0 ? Res{false, ""} : Res{true, m.lines[(size_t)idx].val}; }

static Verdict run_case(const Case &c) {
  Lib lib;
  PBT_REQUIRE(lib.h != nullptr, "ini_create failed");
  Model m;
  Snapshot snap;
  bool tainted = false, nontriv = false;
  const bool k_h6 = known(P_H6), k_gen = known(P_GEN), k_dup = known(P_DUP), k_pow = known(P_POW10), k_min = known(P_MIN);
  label(std::string("cls:") + (c.cls == 0 ? "uniq" : c.cls == 1 ? "casevar" : c.cls == 2 ? "dup" : "wild"));
  label("len:" + std::string(c.cmds.size() <= 5 ? "1-5" : c.cmds.size() <= 15 ? "6-15" : c.cmds.size() <= 30 ? "16-30" : "31+"));

  for (size_t ci_ = 0; ci_ < c.cmds.size(); ci_++) {
    const Cmd &cmd = c.cmds[ci_];
    std::ostringstream cx;
    cx << "cmd#" << ci_ << " " << OPN[cmd.op];
    label(std::string("op:") + OPN[cmd.op] + (tainted ? "(free)" : ""));
    bool names_ok = sect_representable(cmd.s) && key_representable(cmd.k);
    // size-0 "C string" convention needs a non-empty name without NUL: guaranteed by *_representable
    int scstr = cmd.scstr && names_ok, kcstr = cmd.kcstr && names_ok;
    si_name sn = nm(cmd.s, scstr), kn = nm(cmd.k, kcstr);

    switch (cmd.op) {
    case OP_PARSE: {
      std::string t = cmd.value();
      if (!text_in_domain(t)) { tainted = true; label("wild:parse_nul"); }
      int rc = si_parse(lib.h, (const uint8_t *)t.data(), t.size());
      PBT_REQUIRE(rc == 0, cx.str() << ": ini_buf_parse rc=" << rc);
      if (!tainted) m.parse(t);
      break;
    }
    case OP_SET:
    case OP_SET_INT:
    case OP_SET_UINT: {
      std::string v;
      if (cmd.op == OP_SET) v = cmd.value();
      else if (cmd.op == OP_SET_INT) {
        // canonical decimal text of the number (what a set_int must store for get_int to return it)
        v = std::to_string((long long)cmd.iv);
        uint64_t mag = cmd.iv < 0 ? (uint64_t)0 - (uint64_t)cmd.iv : (uint64_t)cmd.iv;
        if (cmd.iv == INT64_MIN) { label("int:min"); if (k_min) { excluded(P_MIN); continue; } }
        else if (is_pow10(mag)) { label("num:pow10"); if (k_pow) { excluded(P_POW10); continue; } }
      } else {
        v = std::to_string((unsigned long long)cmd.uv);
        if (is_pow10(cmd.uv)) { label("num:pow10"); if (k_pow) { excluded(P_POW10); continue; } }
      }
      bool ok = names_ok && val_representable(v);
      if (!ok && !tainted) { tainted = true; label("wild:set_args"); }
      int rc = cmd.op == OP_SET ? si_set(lib.h, &sn, &kn, (const uint8_t *)v.data(), v.size())
               : cmd.op == OP_SET_INT ? si_set_int(lib.h, &sn, &kn, cmd.iv) : si_set_uint(lib.h, &sn, &kn, cmd.uv);
      PBT_REQUIRE(rc == 0, cx.str() << "(" << show(cmd.s) << "," << show(cmd.k) << "," << show(v) << "): rc=" << rc);
      if (tainted) break;
      // H-UT-6 class: the case-sensitive set finds a key that differs in case
      int so = m.sect_first(cmd.s, false);
      bool h6 = so >= 0 && m.val_first(so, cmd.k, false) != m.val_first(so, cmd.k, true);
      if (h6) {
        label("set:key_differs_in_case_only");
        if (k_h6) excluded(P_H6);
        else cx << " [case-sensitive set of " << show(cmd.k) << " while an earlier key of the section differs from it only in case]";
      }
      // duplicates: the line the documented first-match policy replaces is not the most recently parsed/set one.
      // The property fixes only what lookups return afterwards, not which of the duplicate lines is rewritten:
      // with the finding known the model follows the library, otherwise only model-free invariants from here on.
      {
        int f = m.lookup_first(cmd.s, cmd.k, false, false), r = m.lookup_recent(cmd.s, cmd.k, false);
        if (f != r) {
          label("set:duplicate_most_recent!=first");
          if (k_dup) excluded(P_DUP);
          else {
            const uint8_t *gv0 = nullptr;
            size_t gvn0 = 0;
            rc = si_get(lib.h, 0, &sn, &kn, &gv0, &gvn0);
            PBT_REQUIRE(rc == 0 && std::string((const char *)gv0, gvn0) == v, cx.str() << ": get right after set(" << show(cmd.s) << "," << show(cmd.k)
                        << ") does not return the set value (rc=" << rc << ") [duplicate names]");
            tainted = true;
            break;
          }
        }
      }
      Model::SetInfo si = m.set(cmd.s, cmd.k, v, h6 && k_h6);
      label(si.new_sect ? "set:new_section" : si.new_key ? "set:new_key" : si.realloc_ ? "set:replace_realloc" : si.grow ? "set:replace_grow_inplace"
            : si.shrink ? "set:replace_shrink" : "set:replace_same_len");
      if (si.before_blank) { label("set:insert_before_blank_lines"); nontriv = true; }
      if (si.realloc_ || si.shrink) nontriv = true;
      if (v.size() >= 1000) label("set:value>=1000B");
      // "looking up a (section, name) pair returns the value most recently ... set for it"
      const uint8_t *gv = nullptr;
      size_t gvn = 0;
      rc = si_get(lib.h, 0, &sn, &kn, &gv, &gvn);
      PBT_REQUIRE(rc == 0, cx.str() << ": get right after set(" << show(cmd.s) << "," << show(cmd.k) << ") rc=" << rc);
      PBT_REQUIRE(std::string((const char *)gv, gvn) == v, cx.str() << ": get right after set returns " << show(std::string((const char *)gv, gvn)) << ", set value was " << show(v));
      break;
    }
    case OP_GET:
    case OP_GET_INT:
    case OP_GET_UINT: {
      const uint8_t *gv = nullptr;
      size_t gvn = 0;
      int64_t gi = 0;
      uint64_t gu = 0;
      int rc = cmd.op == OP_GET ? si_get(lib.h, cmd.ci, &sn, &kn, &gv, &gvn)
               : cmd.op == OP_GET_INT ? si_get_int(lib.h, cmd.ci, &sn, &kn, &gi) : si_get_uint(lib.h, cmd.ci, &sn, &kn, &gu);
      if (tainted) break;
      if (!names_ok) { label("wild:get_args"); break; }  // not addressable: nothing promised
      bool ci = cmd.ci != 0;
      Res want = res_of(m, m.lookup_recent(cmd.s, cmd.k, ci));
      Res first = res_of(m, m.lookup_first(cmd.s, cmd.k, ci, ci));
      Res first_h6 = res_of(m, m.lookup_first(cmd.s, cmd.k, ci, true));
      bool dupdiv = !(want == first), h6div = !(first == first_h6);
      bool skip = false;
      if (dupdiv) { label("get:duplicate_most_recent!=first"); if (k_dup) { excluded(P_DUP); skip = true; } }
      if (h6div) { label("get:cs_lookup_with_case_variant_only"); if (k_h6) { excluded(P_H6); skip = true; } }
      if (skip) break;
      label(want.found ? (ci ? "get:hit_ci" : "get:hit_cs") : "get:miss");
      const char *cls = dupdiv ? " [duplicate names: property says most recent wins]" : h6div ? " [case-sensitive lookup, store only has a case variant]" : "";
      if (!want.found) {
        PBT_REQUIRE(rc != 0, cx.str() << (ci ? "(ci)" : "(cs)") << "(" << show(cmd.s) << "," << show(cmd.k) << ") found a value, model has none" << cls);
        break;
      }
      PBT_REQUIRE(rc == 0, cx.str() << (ci ? "(ci)" : "(cs)") << "(" << show(cmd.s) << "," << show(cmd.k) << ") rc=" << rc << ", model has " << show(want.val) << cls);
      if (cmd.op == OP_GET) {
        std::string got((const char *)gv, gvn);
        PBT_REQUIRE(got == want.val, cx.str() << (ci ? "(ci)" : "(cs)") << "(" << show(cmd.s) << "," << show(cmd.k) << ") = " << show(got) << ", model has " << show(want.val) << cls);
      } else if (cmd.op == OP_GET_INT) {
        int64_t wi;
        if (canon_int(want.val, &wi)) { label("get_int:canonical"); PBT_REQUIRE(gi == wi, cx.str() << " = " << gi << ", stored text is " << show(want.val)); }
        else label("get_int:non_numeric_text(not asserted)");
      } else {
        uint64_t wu;
        if (canon_uint(want.val, &wu)) { label("get_uint:canonical"); PBT_REQUIRE(gu == wu, cx.str() << " = " << gu << ", stored text is " << show(want.val)); }
        else label("get_uint:non_numeric_text(not asserted)");
      }
      break;
    }
    case OP_SECT_FIND: {
      if (cmd.s.empty()) { label("wild:find_args"); break; }
      size_t off = si_sect_find(lib.h, cmd.ci, (const uint8_t *)cmd.s.data(), cmd.s.size());
      if (tainted) break;
      if (!sect_representable(cmd.s)) { label("wild:find_args"); break; }
      std::vector<size_t> okoffs;
      for (size_t j = 0; j < snap.sect_line.size(); j++)
        if (eq_name(m.lines[(size_t)snap.sect_line[j]].name, cmd.s, cmd.ci != 0)) okoffs.push_back(snap.sect_off[j]);
      label(okoffs.empty() ? "sect_find:miss" : okoffs.size() == 1 ? "sect_find:hit" : "sect_find:several");
      if (okoffs.empty()) PBT_REQUIRE(off == SI_OFF_INVALID, cx.str() << (cmd.ci ? "(ci) " : "(cs) ") << show(cmd.s) << " returned offset " << off << ", no such section");
      else PBT_REQUIRE(std::find(okoffs.begin(), okoffs.end(), off) != okoffs.end(),
                       cx.str() << (cmd.ci ? "(ci) " : "(cs) ") << show(cmd.s) << " returned " << (long long)off << ", not the offset of a matching section");
      break;
    }
    case OP_VAL_FIND: {
      if (cmd.s.empty() || cmd.k.empty()) { label("wild:find_args"); break; }
      size_t so = si_sect_find(lib.h, 0, (const uint8_t *)cmd.s.data(), cmd.s.size());
      size_t vo = si_val_find(lib.h, cmd.ci, so, (const uint8_t *)cmd.k.data(), cmd.k.size());
      if (tainted) break;
      if (!names_ok) { label("wild:find_args"); break; }
      if (so == SI_OFF_INVALID) { PBT_REQUIRE(vo == SI_OFF_INVALID, cx.str() << ": val_find with an invalid section offset returned " << vo); label("val_find:no_section"); break; }
      size_t j = 0;
      while (j < snap.sect_off.size() && snap.sect_off[j] != so) j++;
      PBT_REQUIRE(j < snap.sect_off.size(), cx.str() << ": sect_find returned an offset that enumeration never produced");
      std::vector<size_t> okoffs, cioffs;
      for (size_t e = 0; e < snap.val_line[j].size(); e++) {
        const Line &vl = m.lines[(size_t)snap.val_line[j][e]];
        if (eq_name(vl.name, cmd.k, cmd.ci != 0)) okoffs.push_back(snap.val_off[j][e]);
        if (eq_name(vl.name, cmd.k, true)) cioffs.push_back(snap.val_off[j][e]);
      }
      bool h6div = !cmd.ci && !cioffs.empty() && (okoffs.empty() || okoffs.front() != cioffs.front());
      if (h6div) { label("val_find:cs_with_case_variant_only"); if (k_h6) { excluded(P_H6); break; } }
      label(okoffs.empty() ? "val_find:miss" : "val_find:hit");
      if (okoffs.empty()) PBT_REQUIRE(vo == SI_OFF_INVALID, cx.str() << (cmd.ci ? "(ci) " : "(cs) ") << show(cmd.k) << " in " << show(cmd.s) << " returned offset " << vo
                                                              << ", no such entry" << (h6div ? " [case-sensitive lookup, store only has a case variant]" : ""));
      else PBT_REQUIRE(std::find(okoffs.begin(), okoffs.end(), vo) != okoffs.end(),
                       cx.str() << (cmd.ci ? "(ci) " : "(cs) ") << show(cmd.k) << " in " << show(cmd.s) << " returned " << (long long)vo << ", not a matching entry" << (h6div ? " [case-sensitive lookup, an earlier key differs only in case]" : ""));
      break;
    }
    case OP_GEN: {
      size_t sz = 0;
      si_calc_size(lib.h, &sz);
      if (!tainted) sz = m.text_size();
      size_t bs;
      switch (cmd.mode % 7) {
      case 0: bs = 0; break;
      case 1: bs = 1; break;
      case 2: bs = sz ? sz - 1 : 0; break;
      case 3: bs = sz; break;
      case 4: bs = sz + 1; break;
      case 5: bs = sz ? (size_t)(((uint64_t)cmd.uv) % sz) : 0; break;
      default: bs = sz + 1 + (size_t)(cmd.uv % 4096); break;
      }
      label("gen:" + std::string(bs == 0 ? "buf=0" : bs < sz ? (bs == sz - 1 ? "buf=size-1" : "buf<size") : bs == sz ? "buf=size" : "buf>size"));
      std::vector<uint8_t> out(bs + 1);
      size_t sr = 0, over = 0;
      int diff = 0;
      int rc = si_gen(lib.h, bs, sz + 64, out.data(), &sr, &over, &diff);
      if (bs < sz) {
        bool cls;
        if (!tainted) {
          std::vector<size_t> ls;
          for (auto &l : m.lines) ls.push_back(l.data.size());
          cls = gen_overflow_class(ls, bs);
        } else cls = bs >= 2;
        if (cls) { label("gen:too_small_but_every_line_fits_alone"); if (k_gen) { excluded(P_GEN); break; } }
        PBT_REQUIRE(over == 0, cx.str() << "(buf_size=" << bs << " < size " << sz << ") wrote " << over << " bytes past the buffer, rc=" << rc << " size_ret=" << sr);
        PBT_REQUIRE(rc != 0, cx.str() << "(buf_size=" << bs << " < size " << sz << ") reports success");
      } else if (bs > 0) {
        PBT_REQUIRE(rc == 0 && sr == sz && over == 0, cx.str() << "(buf_size=" << bs << " >= size " << sz << ") rc=" << rc << " size_ret=" << sr << " overrun=" << over);
        if (!tainted) PBT_REQUIRE(std::string((const char *)out.data(), sr) == m.text(), cx.str() << ": text differs from the model");
      }
      break;
    }
    case OP_ROUNDTRIP: {
      size_t sz = 0;
      int rc = si_calc_size(lib.h, &sz);
      PBT_REQUIRE(rc == 0, cx.str() << ": calc_size rc=" << rc);
      std::vector<uint8_t> out(sz + 1);
      if (sz) {
        size_t sr = 0, over = 0;
        int diff = 0;
        rc = si_gen(lib.h, sz, 64, out.data(), &sr, &over, &diff);
        PBT_REQUIRE(rc == 0 && sr == sz && over == 0, cx.str() << ": gen rc=" << rc << " wrote " << sr << "/" << sz << " overrun " << over);
      }
      lib.reset();
      PBT_REQUIRE(lib.h != nullptr, "ini_create failed");
      rc = si_parse(lib.h, out.data(), sz);
      PBT_REQUIRE(rc == 0, cx.str() << ": parse of generated text rc=" << rc);
      if (!tainted) {
        m.reparse();
        if (!m.lines.empty()) { nontriv = true; label("roundtrip:non_empty"); }
      }
      break;
    }
    }
    // ---- invariant after every command
    if (!tainted) {
      Verdict v = check_store(lib, m, snap, "after " + cx.str());
      if (!v.ok) return v;
    } else {
      Verdict v = check_store_free(lib, "after " + cx.str());
      if (!v.ok) return v;
    }
  }
  if (tainted) label("history:tainted(model-free invariants from there)");
  {
    size_t ns = 0, nv = 0, nb = 0;
    for (auto &l : m.lines) { ns += l.type == T_SECTION; nv += l.type == T_VALUE; nb += l.type == T_EMPTY; }
    label("final_store:" + std::string(nv == 0 ? "no_values" : nv <= 5 ? "1-5_values" : nv <= 15 ? "6-15_values" : "16+_values"));
    (void)ns; (void)nb;
  }
  if (nontriv) nontrivial_cur();
  return Verdict::pass();
}

// ------------------------------------------------------------------ generators
static std::string case_variant(const std::string &s, int mode) {
  std::string r = s;
  if (mode == 1) for (auto &ch : r) if (ch >= 'a' && ch <= 'z') ch = (char)(ch - 32);
  if (mode == 2 && !r.empty() && r[0] >= 'a' && r[0] <= 'z') r[0] = (char)(r[0] - 32);
  if (mode == 3 && r.size() > 1 && r.back() >= 'a' && r.back() <= 'z') r.back() = (char)(r.back() - 32);
  return r;
}
static const char *SECT_POOL[] = {"s", "sec", "main", "a]b", "x y", "zz", "q", "net.0", "\xc3\xbcml", "[in]"};
static const char *KEY_POOL[] = {"k", "key", "name", "n1", "a b", "v", "w", "threadsCountMax", "fBindToCPU", "\xd0\xb6", "k]"};
static std::string long_name(char ch, size_t n) { return std::string(n, ch); }

struct GenCtx {
  int cls;
  Model gm;  // generation-time mirror (library policy) so that commands can aim at existing names
  std::vector<std::pair<std::string, std::vector<std::string>>> sections() const {
    std::vector<std::pair<std::string, std::vector<std::string>>> r;
    for (auto &l : gm.lines) {
      if (l.type == T_SECTION) r.push_back({l.name, {}});
      else if (l.type == T_VALUE && !r.empty()) r.back().second.push_back(l.name);
    }
    return r;
  }
  bool has_sect_ci(const std::string &s) const { return gm.sect_first(s, true) >= 0; }
};

static std::string gen_new_sect(GenCtx &g) {
  for (int t = 0; t < 20; t++) {
    int i = *range<int>(0, 11);
    std::string s = i < 10 ? SECT_POOL[i] : long_name('S' + 32, (size_t)*rc::gen::element<int>(17, 255, 256, 600));
    if (i >= 10) s += std::to_string(*range<int>(0, 3));
    if (g.cls >= 1) s = case_variant(s, *range<int>(0, 3));
    if (g.cls <= 1 && (g.cls == 0 ? g.has_sect_ci(s) : g.gm.sect_first(s, false) >= 0)) continue;
    return s;
  }
  return "u" + std::to_string(g.gm.lines.size());
}
static std::string gen_new_key(GenCtx &g, const std::vector<std::string> &existing) {
  for (int t = 0; t < 20; t++) {
    int i = *range<int>(0, 12);
    std::string k = i < 11 ? KEY_POOL[i] : long_name('k', (size_t)*rc::gen::element<int>(15, 16, 17, 300));
    if (i >= 11) k += std::to_string(*range<int>(0, 3));
    if (g.cls >= 1) k = case_variant(k, *range<int>(0, 3));
    bool clash = false;
    for (auto &e : existing) clash = clash || eq_name(e, k, g.cls == 0);
    if (g.cls <= 1 && clash) continue;
    return k;
  }
  return "u" + std::to_string(existing.size());
}
static std::string gen_wild_name() {
  return *rc::gen::element<std::string>("", "a=b", "[x", ";c", "#h", std::string("n\0m", 3), "a\nb", "a\rb", "=", " ", "]");
}
static const char *VAL_POOL[] = {"", "v", "1", "-5", "10", "1000", "a=b", "[x]", ";c", " spaced ", "x\r", "tru\xc3\xa9", "yes", "0", "18446744073709551615",
                                 "-9223372036854775808", "007", "+3", "12ab"};
static std::string gen_text(GenCtx &g) {
  std::string t;
  int nl = *range<int>(0, 12);
  int style = *range<int>(0, 2);  // LF, CRLF, mixed
  bool final_nl = *range<int>(0, 3) != 0;
  auto secs = g.sections();
  std::vector<std::string> cur_keys;
  bool have_sect = false;
  if (!secs.empty()) cur_keys = secs.back().second;
  // in the unique classes a text never continues the store's last section
  bool need_sect_first = g.cls <= 1;
  std::vector<std::string> text_sects;
  for (int i = 0; i < nl; i++) {
    int kind = *rc::gen::weightedElement<int>({{45, 0}, {20, 1}, {15, 2}, {7, 3}, {6, 4}, {3, 5}, {2, 6}, {2, 7}});
    std::string line;
    if (kind == 0 && need_sect_first && !have_sect) kind = 1;
    if (g.cls <= 1 && kind == 7) kind = 2;
    switch (kind) {
    case 0: {
      std::string k = gen_new_key(g, cur_keys);
      cur_keys.push_back(k);
      std::string v = *range<int>(0, 9) == 0 ? std::string((size_t)*rc::gen::element<int>(15, 16, 17, 200, 4096), 'L') : std::string(VAL_POOL[*range<int>(0, 18)]);
      line = k + "=" + v;
      break;
    }
    case 1: {
      std::string s;
      for (int tr = 0; tr < 10; tr++) {
        s = gen_new_sect(g);
        bool clash = false;
        for (auto &e : text_sects) clash = clash || eq_name(e, s, g.cls == 0);
        if (!(g.cls <= 1 && clash)) break;
        s = "t" + std::to_string(i) + "_" + std::to_string(g.gm.lines.size());
      }
      text_sects.push_back(s);
      line = "[" + s + "]";
      if (*range<int>(0, 9) == 0) line += " ; trailing";
      cur_keys.clear();
      have_sect = true;
      break;
    }
    case 2: {
      int run = *range<int>(1, 3);
      for (int r = 1; r < run; r++) t += (style == 1 || (style == 2 && *range<int>(0, 1))) ? "\r\n" : "\n";
      line = "";
      break;
    }
    case 3: line = *rc::gen::element<std::string>("; comment", "# hash", ";", "#k=v", ";[s]"); break;
    case 4: line = *rc::gen::element<std::string>("novalue", "just text here", "k", "]"); break;
    case 5: line = *rc::gen::element<std::string>(" ", "\t", "  \t "); break;
    case 6: line = *rc::gen::element<std::string>("[unterminated", "["); break;
    default: line = *rc::gen::element<std::string>("=v", "=", " k=v", " [s]"); break;
    }
    t += line;
    bool last = (i == nl - 1);
    if (!last || final_nl) t += (style == 1 || (style == 2 && *range<int>(0, 1))) ? "\r\n" : "\n";
  }
  if (g.cls == 3 && *range<int>(0, 2) == 0) {
    Bytes b = *bytes_upto(40);
    t.append((const char *)b.data(), b.size());
  }
  return t;
}

static rc::Gen<Case> genCase() {
  return rc::gen::exec([]() {
    Case c;
    c.cls = *rc::gen::weightedElement<int>({{50, 0}, {22, 1}, {18, 2}, {10, 3}});
    GenCtx g;
    g.cls = c.cls;
    int n = *rc::gen::weightedElement<int>({{2, *range<int>(1, 5)}, {4, *range<int>(6, 20)}, {3, *range<int>(21, 40)}});
    for (int i = 0; i < n; i++) {
      Cmd m;
      bool empty_store = g.gm.lines.empty();
      m.op = *rc::gen::weightedElement<int>({{empty_store ? 30 : 8, OP_PARSE}, {30, OP_SET}, {4, OP_SET_INT}, {4, OP_SET_UINT}, {14, OP_GET}, {4, OP_GET_INT},
                                             {4, OP_GET_UINT}, {4, OP_SECT_FIND}, {6, OP_VAL_FIND}, {9, OP_GEN}, {7, OP_ROUNDTRIP}});
      m.ci = *range<int>(0, 1);
      m.scstr = *range<int>(0, 3) == 0;
      m.kcstr = *range<int>(0, 3) == 0;
      auto secs = g.sections();
      switch (m.op) {
      case OP_PARSE: m.set_literal(gen_text(g)); g.gm.parse(m.value()); break;
      case OP_SET:
      case OP_SET_INT:
      case OP_SET_UINT: {
        int how = secs.empty() ? 2 : *rc::gen::weightedElement<int>({{50, 0}, {30, 1}, {20, 2}});
        if (how == 2) { m.s = gen_new_sect(g); m.k = gen_new_key(g, {}); }
        else {
          auto &se = secs[(size_t)*range<int>(0, (int)secs.size() - 1)];
          m.s = se.first;
          if (how == 0 && !se.second.empty()) m.k = se.second[(size_t)*range<int>(0, (int)se.second.size() - 1)];
          else m.k = gen_new_key(g, se.second);
          // case variant of an existing key through the case-sensitive set (H-UT-6 class)
          if (g.cls >= 1 && how == 0 && *range<int>(0, 3) == 0) m.k = case_variant(m.k, *range<int>(1, 3));
        }
        if (g.cls == 3 && *range<int>(0, 3) == 0) (*range<int>(0, 1) ? m.s : m.k) = gen_wild_name();
        if (m.op == OP_SET) {
          // value length aimed at the allocation edge of the line it replaces
          int so = g.gm.sect_first(m.s, false);
          int vo = so >= 0 ? g.gm.val_first(so, m.k, false) : -1;
          int kind = *range<int>(0, 9);
          if (vo >= 0 && kind < 5) {
            size_t alloc = g.gm.lines[(size_t)vo].alloc, base = m.k.size() + 1;
            long tgt = (long)alloc + *rc::gen::element<int>(-2, -1, 0, 1, 17, 40);
            m.vlen = (uint32_t)std::max<long>(0, tgt - (long)base);
            m.pat = *rc::gen::element<std::string>("x", "ab", "v=", "9");
          } else if (kind < 7) {
            m.set_literal(VAL_POOL[*range<int>(0, 18)]);
          } else if (kind < 9) {
            m.vlen = (uint32_t)*rc::gen::element<int>(0, 1, 15, 16, 17, 31, 32, 33, 100, 1000, 4096);
            m.pat = *rc::gen::element<std::string>("y", "long ", "[;=]");
          } else {
            m.vlen = (uint32_t)*range<int>(0, 64);
            m.pat = "z";
          }
          if (g.cls == 3 && *range<int>(0, 5) == 0) m.set_literal("line1\nline2");
        } else if (m.op == OP_SET_INT) {
          int kind = *range<int>(0, 9);
          int64_t p = 1;
          int e = *range<int>(0, 18);
          for (int j = 0; j < e; j++) p *= 10;
          m.iv = kind == 0 ? 0 : kind == 1 ? INT64_MAX : kind == 2 ? INT64_MIN : kind == 3 ? INT64_MIN + 1 : kind == 4 ? p : kind == 5 ? -p
                 : kind == 6 ? p - 1 : kind == 7 ? p + 1 : kind == 8 ? -(p + 1) : *rc::gen::arbitrary<int64_t>();
        } else {
          int kind = *range<int>(0, 7);
          uint64_t p = 1;
          int e = *range<int>(0, 19);
          for (int j = 0; j < e; j++) p *= 10;
          m.uv = kind == 0 ? 0 : kind == 1 ? UINT64_MAX : kind == 2 ? p : kind == 3 ? p - 1 : kind == 4 ? p + 1 : kind == 5 ? (uint64_t)*range<int>(0, 1000)
                 : *rc::gen::arbitrary<uint64_t>();
        }
        // mirror (library policy; representable arguments only)
        if (sect_representable(m.s) && key_representable(m.k)) {
          std::string v = m.op == OP_SET ? m.value() : m.op == OP_SET_INT ? std::to_string((long long)m.iv) : std::to_string((unsigned long long)m.uv);
          if (val_representable(v)) g.gm.set(m.s, m.k, v, false);
        }
        break;
      }
      case OP_GET:
      case OP_GET_INT:
      case OP_GET_UINT:
      case OP_SECT_FIND:
      case OP_VAL_FIND: {
        int how = secs.empty() ? 3 : *rc::gen::weightedElement<int>({{50, 0}, {25, 1}, {10, 2}, {15, 3}});
        if (how == 3) { m.s = *rc::gen::element<std::string>("absent", "s", "S", "main"); m.k = *rc::gen::element<std::string>("k", "nokey", "KEY"); }
        else {
          auto &se = secs[(size_t)*range<int>(0, (int)secs.size() - 1)];
          m.s = se.first;
          m.k = se.second.empty() ? "k" : se.second[(size_t)*range<int>(0, (int)se.second.size() - 1)];
          if (how == 1) m.k = case_variant(m.k, *range<int>(1, 3));           // key differs in case only
          if (how == 2) m.s = case_variant(m.s, *range<int>(1, 3));           // section differs in case only
          if (how == 0 && *range<int>(0, 7) == 0) m.k = "nokey";
        }
        if (g.cls == 3 && *range<int>(0, 5) == 0) (*range<int>(0, 1) ? m.s : m.k) = gen_wild_name();
        break;
      }
      case OP_GEN:
        m.mode = *rc::gen::weightedElement<int>({{1, 0}, {1, 1}, {4, 2}, {2, 3}, {2, 4}, {3, 5}, {1, 6}});
        m.uv = *rc::gen::arbitrary<uint64_t>();
        break;
      case OP_ROUNDTRIP: g.gm.reparse(); break;
      }
      c.cmds.push_back(m);
    }
    return c;
  });
}


// ------------------------------------------------------------------ shrinking
// The command list is a plain value: shrink it by dropping commands (chunks first), then by simplifying
// single commands (drop text lines, shorten values, plain calling convention). Names stay literal, so a
// smaller history means the same thing as the original one.
static std::vector<std::string> text_pieces(const std::string &t) {
  std::vector<std::string> r;
  size_t i = 0;
  while (i < t.size()) {
    size_t lf = t.find('\n', i);
    size_t e = lf == std::string::npos ? t.size() : lf + 1;
    r.push_back(t.substr(i, e - i));
    i = e;
  }
  return r;
}
static rc::Seq<Case> shrinkCase(const Case &c) {
  std::vector<Case> out;
  size_t n = c.cmds.size();
  for (size_t k = n / 2; k >= 1; k /= 2) {
    for (size_t st = 0; st + k <= n; st += k) {
      Case d = c;
      d.cmds.erase(d.cmds.begin() + (long)st, d.cmds.begin() + (long)(st + k));
      out.push_back(d);
    }
  }
  for (size_t i = 0; i < n; i++) {
    const Cmd &m = c.cmds[i];
    auto with = [&](const Cmd &x) { Case d = c; d.cmds[i] = x; out.push_back(d); };
    if (m.op == OP_PARSE) {
      std::vector<std::string> ps = text_pieces(m.value());
      for (size_t j = 0; j < ps.size() && ps.size() > 1; j++) {
        std::string t;
        for (size_t q = 0; q < ps.size(); q++) if (q != j) t += ps[q];
        Cmd x = m; x.set_literal(t); with(x);
      }
      for (size_t j = 0; j < ps.size(); j++) {  // shorten one long line
        if (ps[j].size() < 24) continue;
        std::string t;
        for (size_t q = 0; q < ps.size(); q++) t += (q == j) ? ps[q].substr(0, 3) + ps[q].substr(ps[q].size() - 8) : ps[q];
        Cmd x = m; x.set_literal(t); with(x);
      }
    } else {
      if (m.vlen > 0 && (m.op == OP_SET)) {
        for (uint32_t nv : {(uint32_t)0, m.vlen / 2, m.vlen - 1}) if (nv < m.vlen) { Cmd x = m; x.vlen = nv; if (x.pat.size() > nv) x.pat.resize(nv); with(x); }
        if (m.pat.size() > 1) { Cmd x = m; x.pat.resize(1); with(x); }
      }
      if (m.s.size() > 3) { Cmd x = m; x.s = "s"; with(x); }
      if (m.k.size() > 3) { Cmd x = m; x.k = "k"; with(x); }
    }
    if (m.scstr || m.kcstr) { Cmd x = m; x.scstr = x.kcstr = 0; with(x); }
    if (m.ci && (m.op == OP_SECT_FIND)) { Cmd x = m; x.ci = 0; with(x); }
    if ((m.op == OP_SET_INT && m.iv != 0 && m.iv != 10)) { Cmd x = m; x.iv = m.iv / 10; with(x); }
    if ((m.op == OP_SET_UINT && m.uv != 0)) { Cmd x = m; x.uv = m.uv / 10; with(x); }
  }
  return rc::seq::fromContainer(std::move(out));
}
static rc::Gen<Case> genCaseShrinking() { return rc::gen::shrink(rc::gen::noShrink(genCase()), &shrinkCase); }

int main(int argc, char **argv) {
  add_check<Case>("history", 20000, 100, genCaseShrinking, run_case);
  return driver_main(argc, argv);
}
