// C05 -- thread-pool unicast messages: exactly once, in order, on the right thread.
// Generated scenario (pool size, sender programs, stall+burst for a really full
// queue) + schedule plan (LIBLCB_VERIF points) + fault plan (queue write/read
// errno injection); invariants are evaluated over the recorded history.
#include "pbt.hpp"
#include "../shims/tp_abi.h"
#include <cerrno>
#include <memory>

using namespace pbt;

struct Send { int dst = 0, flags = 0, src_own = 0; };
struct Sender { int in_pool = 0, pool_idx = 0; std::vector<Send> sends; };
struct Fault { int fn = 0, k = 0, err = 0; };
struct MsgCase {
  int nthreads = 1, skip_first = 0, stall_dst = 255, burst = 0, burst_flags = 0, late_burst = 0, late_dst = 0, race_n = 0, race_dst = 0, race_flags = 0, pool_flags = 0, late_self = 0, selfarg = 0, late_by_self = 0, pvt_sources = 0, nested_sync = 0;
  std::vector<int> aops;  // triples alloc_on, dst, free_on (255 = outside / NULL)
  std::vector<Sender> senders;
  Bytes plan;
  std::vector<Fault> faults;
  std::string ser() const {
    Writer w;
    w.i("nthreads", nthreads).i("skip_first", skip_first).i("stall_dst", stall_dst).i("burst", burst).i("burst_flags", burst_flags).i("late_burst", late_burst).i("late_dst", late_dst).i("race_n", race_n).i("race_dst", race_dst).i("race_flags", race_flags).i("pool_flags", pool_flags).i("late_self", late_self).i("selfarg", selfarg).i("late_by_self", late_by_self).i("pvt_sources", pvt_sources).i("nested_sync", nested_sync);
    { std::vector<long long> a(aops.begin(), aops.end()); w.iv("aops", a); }
    w.i("nsenders", (long long)senders.size());
    for (size_t i = 0; i < senders.size(); i++) {
      std::vector<long long> v{senders[i].in_pool, senders[i].pool_idx};
      for (auto &s : senders[i].sends) { v.push_back(s.dst); v.push_back(s.flags); v.push_back(s.src_own); }
      w.iv(("s" + std::to_string(i)).c_str(), v);
    }
    w.b("plan", plan);
    std::vector<long long> f;
    for (auto &x : faults) { f.push_back(x.fn); f.push_back(x.k); f.push_back(x.err); }
    w.iv("faults", f);
    return w.str();
  }
  static MsgCase parse(const std::string &t) {
    Reader r(t);
    MsgCase c;
    c.nthreads = (int)r.i("nthreads", 1); c.skip_first = (int)r.i("skip_first"); c.stall_dst = (int)r.i("stall_dst", 255);
    c.burst = (int)r.i("burst"); c.burst_flags = (int)r.i("burst_flags"); c.late_burst = (int)r.i("late_burst"); c.late_dst = (int)r.i("late_dst");
    c.race_n = (int)r.i("race_n"); c.race_dst = (int)r.i("race_dst"); c.race_flags = (int)r.i("race_flags");
    c.pool_flags = (int)r.i("pool_flags"); c.late_self = (int)r.i("late_self"); c.selfarg = (int)r.i("selfarg"); c.late_by_self = (int)r.i("late_by_self"); c.pvt_sources = (int)r.i("pvt_sources"); c.nested_sync = (int)r.i("nested_sync");
    for (long long v : r.iv("aops")) c.aops.push_back((int)v);
    int n = (int)r.i("nsenders");
    for (int i = 0; i < n; i++) {
      auto v = r.iv(("s" + std::to_string(i)).c_str());
      Sender s;
      if (v.size() >= 2) { s.in_pool = (int)v[0]; s.pool_idx = (int)v[1]; }
      for (size_t j = 2; j + 3 <= v.size(); j += 3) s.sends.push_back(Send{(int)v[j], (int)v[j + 1], (int)v[j + 2]});
      c.senders.push_back(s);
    }
    c.plan = r.b("plan");
    auto f = r.iv("faults");
    for (size_t j = 0; j + 3 <= f.size(); j += 3) c.faults.push_back(Fault{(int)f[j], (int)f[j + 1], (int)f[j + 2]});
    return c;
  }
};
void showValue(const MsgCase &c, std::ostream &os) { os << c.ser(); }

static void fill_plans(tp_plans &p, const Bytes &plan, const std::vector<Fault> &faults) {
  memset(&p, 0, sizeof p);
  p.plan_len = (uint32_t)std::min<size_t>(plan.size(), TP_PLAN_MAX);
  memcpy(p.plan, plan.data(), p.plan_len);
  p.nfaults = (uint32_t)std::min<size_t>(faults.size(), TP_FAULT_MAX);
  for (uint32_t i = 0; i < p.nfaults; i++) {
    p.faults[i].fn = (uint8_t)faults[i].fn;
    p.faults[i].k = (uint32_t)faults[i].k;
    p.faults[i].err = faults[i].err;
  }
}

struct SendInfo {
  bool used = false, racing = false, after_stop = false;
  int sender = -1, seq = -1, dst = 0, flags = 0;
  long call = -1, ret = -1;
  long long rc = 0;
  uint32_t call_thr = 0;
  uint64_t call_cur = 0;
  std::vector<long> cbs;
};

static Verdict evaluate(const MsgCase &c, const c05_out &o, bool &hang) {
  hang = false;
  PBT_REQUIRE(o.setup_rc == 0, "harness: pool creation failed rc=" << o.setup_rc);
  PBT_REQUIRE(tp_log_dropped() == 0, "harness: history log overflow");
  uint32_t n = tp_log_count();
  std::vector<SendInfo> si(o.nsends);
  // describe every send id
  for (size_t s = 0; s < c.senders.size(); s++)
    for (size_t j = 0; j < c.senders[s].sends.size(); j++) {
      SendInfo &x = si[s * C05_MAX_SENDS + j];
      x.used = true; x.sender = (int)s; x.seq = (int)j;
      x.dst = c.senders[s].sends[j].dst; x.flags = c.senders[s].sends[j].flags & 7;
    }
  for (uint32_t b = o.nsends - o.nself; b < o.nsends; b++) {  // self-sends made by a callback that runs after the thread's stop message
    SendInfo &x = si[b];
    x.used = true; x.after_stop = true; x.sender = (int)c.senders.size() + 3; x.seq = (int)(b - (o.nsends - o.nself));
    x.dst = c.late_dst % c.nthreads; x.flags = (x.seq & 1) ? 2 : 0;
  }
  for (uint32_t b = o.nsends - o.nrace; b < o.nsends && o.nself == 0; b++) {  // sends racing with tp_shutdown(): relaxed oracle below
    SendInfo &x = si[b];
    x.used = true; x.racing = true; x.sender = (int)c.senders.size() + 2; x.seq = (int)(b - (o.nsends - o.nrace));
    x.dst = c.race_dst % c.nthreads; x.flags = c.race_flags & 7;
  }
  for (uint32_t b = (uint32_t)c.senders.size() * C05_MAX_SENDS; b < o.nsends - o.nlate - o.nrace - o.nself - o.npvt_msg; b++) {
    SendInfo &x = si[b];
    x.used = true; x.sender = (int)c.senders.size(); x.seq = (int)(b - c.senders.size() * C05_MAX_SENDS);
    x.dst = c.stall_dst; x.flags = c.burst_flags & 7;
  }
  if (o.npvt_msg) {  // the message sent to the virtual thread while its other event sources were ready and every worker was busy
    SendInfo &x = si[o.nsends - o.nlate - o.nrace - o.nself - 1];
    x.used = true; x.sender = (int)c.senders.size() + 4; x.seq = 0; x.dst = 255; x.flags = 0;
  }
  for (uint32_t b = o.nsends - o.nlate - o.nrace - o.nself; b < o.nsends - o.nrace - o.nself; b++) {  // late burst: plain sends to a stalled, still running thread after tp_shutdown()
    SendInfo &x = si[b];
    x.used = true; x.sender = (int)c.senders.size() + 1; x.seq = (int)(b - (o.nsends - o.nlate - o.nrace - o.nself));
    x.dst = c.late_dst % c.nthreads; x.flags = 0;
  }
  std::set<uint64_t> pool_ptrs;
  for (int i = 0; i < c.nthreads; i++) pool_ptrs.insert(o.tpt_ptr[i]);
  for (uint32_t i = 0; i < n; i++) {
    const tp_rec &r = tp_log_buf[i];
    if (r.kind == R_SEND_CALL || r.kind == R_SEND_RET || r.kind == R_CB) {
      PBT_REQUIRE(r.a < si.size() && si[r.a].used, "callback or record for a message id that was never sent: " << r.a << " (record " << i << " of " << n << ": kind " << r.kind << " thr " << r.thr << " a " << r.a << " b " << r.b
                                                           << " c " << r.c << " d " << r.d << " cur " << r.cur << ", hang " << o.hang << ")");
      SendInfo &x = si[r.a];
      if (r.kind == R_SEND_CALL) { x.call = i; x.call_thr = r.thr; x.call_cur = r.cur; }
      else if (r.kind == R_SEND_RET) { x.ret = i; x.rc = (long long)(int64_t)r.b; }
      else x.cbs.push_back(i);
    }
  }
  if (o.hang) { hang = true; return Verdict::fail("hang: completion or fence ceiling hit"); }
  int direct_taken = 0, failed = 0, pvt_sends = 0;
  std::map<std::pair<int, int>, long> last_cb;  // (sender, dst) -> last queued callback index
  for (size_t id = 0; id < si.size(); id++) {
    SendInfo &x = si[id];
    if (!x.used) continue;
    if (x.call < 0) continue;  // sender never got to it (cannot happen without a hang)
    PBT_REQUIRE(x.ret >= 0, "send " << id << " never returned");
    bool is_pvt = (x.dst == 255);
    int d = is_pvt ? 16 : x.dst % c.nthreads;
    uint64_t dstptr = o.tpt_ptr[d];
    bool running = is_pvt ? true : !(c.skip_first && d == 0);
    bool self = (x.flags & 1) && x.call_cur == dstptr;
    if (is_pvt) pvt_sends++;
    if (x.after_stop) {
      // the destination (= the sender's own thread) has processed its stop message: it is not running any more. A plain send
      // must be refused (nothing can deliver it), FORCE must run the callback directly; in any case success <=> ran exactly once
      if (c.late_by_self) {
        // variant: the stop message is queued BEHIND the burst (the held thread called tp_shutdown() itself), so this callback runs while
        // its thread is still running: the self-send is accepted and lands behind the stop message. Whether it is still read depends on
        // the batch boundaries (no read follows a partial batch once the thread is stopping) -- the known accepted-then-lost defect.
        PBT_REQUIRE(x.cbs.size() <= 1, "DUPLICATE: self-send " << id << " ran its callback " << x.cbs.size() << " times");
        if (x.rc != 0) PBT_REQUIRE(x.cbs.empty(), "self-send " << id << " returned " << x.rc << " but its callback ran");
        if (x.rc == 0 && x.cbs.empty()) {
          if (known("c05_send_accepted_after_last_queue_look_is_lost")) excluded("c05_send_accepted_after_last_queue_look_is_lost");
          else return Verdict::fail("LOST: self-send " + std::to_string(id) + " made by a callback that ran in the batch of the thread's stop message returned 0 but its callback never ran");
        }
        label("self_send_in_the_batch_of_the_stop_message");
        continue;
      }
      if (x.rc == 0) PBT_REQUIRE(x.cbs.size() == 1, "LOST: self-send " << id << " (flags " << x.flags << ") issued after the thread's stop message returned 0 but its callback ran " << x.cbs.size() << " time(s)");
      else PBT_REQUIRE(x.cbs.empty(), "self-send " << id << " (flags " << x.flags << ") issued after the thread's stop message returned " << x.rc << " but its callback ran");
      if ((x.flags & 2)) PBT_REQUIRE(x.rc == 0, "self-send " << id << " with FORCE to the stopping thread returned " << x.rc << " instead of calling directly");
      label("self_send_after_stop_message");
      continue;
    }
    if (x.racing) {
      // The send raced with tp_shutdown(): whether the destination was still running when the library looked is not known to the
      // harness, and the library's look-then-write is not atomic (an accepted message can arrive after the thread's last look
      // at its queue) -- so "accepted => delivered" is NOT asserted here. What holds on every interleaving: a send that
      // reports failure never runs the callback, and no callback runs twice.
      PBT_REQUIRE(x.cbs.size() <= 1, "DUPLICATE: send " << id << " (racing with tp_shutdown, flags " << x.flags << ", rc " << x.rc << ") ran its callback " << x.cbs.size() << " times");
      if (x.rc != 0) PBT_REQUIRE(x.cbs.empty(), "send " << id << " (racing with tp_shutdown, flags " << x.flags << ") returned error " << x.rc << " but its callback ran");
      if (x.rc == 0 && x.cbs.empty()) {
        // accepted, never delivered: the destination left its loop between the library's state test and the queue write
        if (known("c05_send_accepted_after_last_queue_look_is_lost")) excluded("c05_send_accepted_after_last_queue_look_is_lost");
        else
          return Verdict::fail("LOST: send " + std::to_string(id) + " (racing with tp_shutdown, flags " + std::to_string(x.flags) + ") returned 0 but its callback never ran: the destination "
                               "thread stopped between the running test and the queue write of tpt_msg_send()");
      }
      if (x.rc != 0) label("race_refused");
      continue;
    }
    if (x.rc != 0) {
      failed++;
      PBT_REQUIRE(x.cbs.empty(), "send " << id << " (sender " << x.sender << " #" << x.seq << " dst " << x.dst << " flags " << x.flags
                                          << ") returned error " << x.rc << " but its callback ran " << x.cbs.size() << " time(s)");
      PBT_REQUIRE(!self, "send " << id << " with SELF_DIRECT to the caller's own thread failed with " << x.rc);
      if (x.rc == EHOSTDOWN) PBT_REQUIRE(!running, "send " << id << " to a running thread returned EHOSTDOWN");
      if (!running) PBT_REQUIRE(x.rc == EHOSTDOWN && !(x.flags & 2), "send " << id << " to a stopped thread: rc " << x.rc << " flags " << x.flags);
      PBT_REQUIRE(!(x.flags & 4) || x.rc == EHOSTDOWN || x.rc == EINVAL, "send " << id << " with FAIL_DIRECT reported write failure " << x.rc << " instead of calling directly");
      continue;
    }
    if (is_pvt && c.skip_first && c.nthreads == 1 && x.cbs.empty()) { label("pvt_without_consumer"); continue; }  // nobody can consume yet
    PBT_REQUIRE(x.cbs.size() >= 1, "LOST: send " << id << " (sender " << x.sender << " #" << x.seq << " dst " << x.dst << " flags " << x.flags
                                                   << ") returned 0 but its callback never ran");
    PBT_REQUIRE(x.cbs.size() == 1, "DUPLICATE: send " << id << " (sender " << x.sender << " #" << x.seq << " dst " << x.dst << " flags " << x.flags
                                                        << ") ran its callback " << x.cbs.size() << " times");
    const tp_rec &cb = tp_log_buf[x.cbs[0]];
    PBT_REQUIRE(cb.b == dstptr, "send " << id << ": callback received tpt " << std::hex << cb.b << " instead of destination " << dstptr);
    bool sync = (cb.thr == x.call_thr && x.cbs[0] > x.call && x.cbs[0] < x.ret);
    bool must_sync = self || (!running && (x.flags & 2));
    bool may_sync = must_sync || (x.flags & 4);
    if (!running) PBT_REQUIRE(x.flags & 2 || self, "send " << id << " to a stopped thread without FORCE returned 0");
    if (must_sync) PBT_REQUIRE(sync, "send " << id << ": direct-call condition held but the callback did not run synchronously in the caller");
    if (sync) {
      PBT_REQUIRE(may_sync, "send " << id << " (flags " << x.flags << "): callback ran synchronously in the caller without a direct-call condition");
      direct_taken++;
      continue;
    }
    // queued delivery: must run on the destination thread (any pool thread for the virtual thread)
    if (is_pvt) PBT_REQUIRE(pool_ptrs.count(cb.cur), "send " << id << " to the virtual thread ran on a non-pool thread");
    else {
      PBT_REQUIRE(cb.cur == dstptr, "WRONG THREAD: send " << id << " for thread " << d << " ran on tpt " << std::hex << cb.cur);
      auto key = std::make_pair(x.sender, d);
      auto it = last_cb.find(key);
      if (it != last_cb.end())
        PBT_REQUIRE(it->second < x.cbs[0], "ORDER: sender " << x.sender << " -> thread " << d << ": message #" << x.seq << " ran before an earlier one");
      last_cb[key] = x.cbs[0];
    }
  }
  // async-operation helpers: result callback exactly once, on the destination fixed at allocation, with the stored arguments
  for (uint32_t b = 0; b < o.naop_done; b++) {
    int alloc_on = c.aops[3 * b], dst = c.aops[3 * b + 1], free_on = c.aops[3 * b + 2];
    int want_thr = (dst == 255 ? alloc_on : dst) % c.nthreads;
    uint64_t want = o.tpt_ptr[want_thr];
    int runs = 0;
    for (uint32_t i = 0; i < n; i++) {
      const tp_rec &r = tp_log_buf[i];
      if (r.kind != R_EV_CB || r.a != b) continue;
      runs++;
      PBT_REQUIRE(r.c == 0xa0b0u + b, "async operation " << b << ": result callback received argument " << std::hex << r.c);
      PBT_REQUIRE(r.b == want && r.cur == want, "async operation " << b << " (allocated on " << (alloc_on == 255 ? std::string("an outside thread") : "thread " + std::to_string(alloc_on % c.nthreads))
                                                  << ", destination " << (dst == 255 ? std::string("NULL = the allocating thread") : "thread " + std::to_string(dst % c.nthreads)) << ", completed on "
                                                  << (free_on == 255 ? std::string("an outside thread") : "thread " + std::to_string(free_on % c.nthreads)) << "): result callback ran on tpt " << std::hex << r.cur
                                                  << " with tpt argument " << r.b << ", destination is " << want);
    }
    PBT_REQUIRE(runs == 1, "async operation " << b << ": result callback ran " << runs << " time(s)");
    label("async_op");
  }
  // classification
  bool overlap = false;
  {
    std::map<int, std::pair<int, long>> last;  // dst -> (sender, idx)
    for (uint32_t i = 0; i < n && !overlap; i++) {
      const tp_rec &r = tp_log_buf[i];
      if (r.kind != R_SEND_CALL) continue;
      const SendInfo &x = si[r.a];
      auto it = last.find(x.dst);
      if (it != last.end() && it->second.first != x.sender) overlap = true;
      last[x.dst] = std::make_pair(x.sender, (long)i);
    }
  }
  uint32_t inj = o.res.injected[F_QWRITE] + o.res.injected[F_QREAD];
  if (overlap) label("senders_overlap_on_one_destination");
  if (inj) label("fault_injected");
  if (failed) label("some_send_failed");
  if (direct_taken) label("direct_call_path");
  if (pvt_sends && c.nthreads >= 2) label("virtual_thread_destination");
  if (c.stall_dst != 255 && c.burst > 2048) label("queue_full_burst");
  if (c.stall_dst != 255 && c.nested_sync && c.nthreads >= 2) label("handler_issues_sync_broadcast_mid_batch");
  if (o.nlate) label(o.nlate > 1024 ? "late_burst_after_shutdown_gt_1024" : "late_burst_after_shutdown");
  if (o.nrace) label("sends_racing_with_shutdown");
  if (c.pool_flags & 2) label("pool_with_CLOEXEC");
  if (o.npvt_msg) { label("message_competes_with_event_sources_on_virtual_thread"); PBT_REQUIRE(o.pvt_pipe_cbs >= 1 || c.nthreads == 0, "harness: no pipe event on the virtual thread was served"); }
  if (o.nlate && c.late_by_self) label("late_burst_then_shutdown_by_the_held_thread");
  for (int p : {1, 2, 3}) if (o.res.vp_hits[p]) label("vp" + std::to_string(p) + "_hit");
  if (overlap || inj || failed || direct_taken || (pvt_sends && c.nthreads >= 2) || o.nlate || o.nrace || o.naop_done || o.npvt_msg) nontrivial_cur();
  return Verdict::pass();
}

static Verdict run_case(const MsgCase &c) {
  std::unique_ptr<c05_scn> scn(new c05_scn());
  memset(scn.get(), 0, sizeof(c05_scn));
  scn->nthreads = (uint8_t)std::max(1, std::min(16, c.nthreads));
  scn->skip_first = (uint8_t)(c.skip_first && scn->nthreads >= 1);
  scn->stall_dst = (uint8_t)c.stall_dst;
  scn->burst = (uint16_t)std::min(4000, c.burst);
  scn->burst_flags = (uint8_t)c.burst_flags;
  scn->nested_sync = (uint8_t)(c.nested_sync != 0);
  scn->late_burst = (uint16_t)std::min(1990, std::max(0, c.late_burst)); scn->late_dst = (uint8_t)c.late_dst;
  scn->race_n = (uint8_t)std::min(200, std::max(0, c.race_n)); scn->race_dst = (uint8_t)c.race_dst; scn->selfarg = (uint8_t)c.selfarg; scn->late_by_self = (uint8_t)c.late_by_self; scn->pvt_sources = (uint8_t)c.pvt_sources;
  scn->naops = (uint8_t)std::min<size_t>(8, c.aops.size() / 3);
  for (int i = 0; i < scn->naops; i++) { scn->aop[i].alloc_on = (uint8_t)c.aops[3 * i]; scn->aop[i].dst = (uint8_t)c.aops[3 * i + 1]; scn->aop[i].free_on = (uint8_t)c.aops[3 * i + 2]; }
  scn->pool_flags = (uint8_t)c.pool_flags; scn->late_self = (uint8_t)(c.late_self && c.late_burst > 0);
  scn->race_flags = (uint8_t)c.race_flags;  // bits 0-2 message flags, bit 3: hold one send at the state-test/write gap
  scn->nsenders = (uint8_t)std::min<size_t>(c.senders.size(), C05_MAX_SENDERS);
  for (int i = 0; i < scn->nsenders; i++) {
    scn->senders[i].in_pool = (uint8_t)c.senders[i].in_pool;
    scn->senders[i].pool_idx = (uint8_t)c.senders[i].pool_idx;
    scn->senders[i].nsends = (uint16_t)std::min<size_t>(c.senders[i].sends.size(), C05_MAX_SENDS);
    for (int j = 0; j < scn->senders[i].nsends; j++) {
      scn->senders[i].sends[j].dst = (uint8_t)c.senders[i].sends[j].dst;
      scn->senders[i].sends[j].flags = (uint8_t)c.senders[i].sends[j].flags;
      scn->senders[i].sends[j].src_own = (uint8_t)c.senders[i].sends[j].src_own;
    }
  }
  fill_plans(scn->plans, c.plan, c.faults);
  Verdict v = Verdict::pass();
  for (int attempt = 0; attempt < 3; attempt++) {
    c05_out o;
    alarm(240);
    c05_run(scn.get(), &o);
    alarm(0);
    bool hang = false;
    v = evaluate(c, o, hang);
    if (!hang) return v;  // hangs are reported only when 3 of 3 runs hit the ceiling
    label("hang_rerun");
  }
  return v;
}

static rc::Gen<MsgCase> genCase() {
  return rc::gen::exec([]() {
    MsgCase c;
    c.nthreads = *rc::gen::element(1, 2, 2, 3, 4, 4, 8, 16);
    c.skip_first = *rc::gen::weightedElement<int>({{4, 0}, {1, 1}});
    if (c.nthreads == 1) c.skip_first = 0;  // at least one started thread: virtual-thread messages need a consumer
    int nsend = *range<int>(1, 6);
    bool big = *range<int>(0, 9) == 0;
    for (int s = 0; s < nsend; s++) {
      Sender sn;
      sn.in_pool = *range<int>(0, 1);
      sn.pool_idx = *range<int>(0, c.nthreads - 1);
      if (c.skip_first && sn.pool_idx == 0) sn.in_pool = 0;
      int n = big ? *range<int>(50, 200) : *range<int>(1, 30);
      // a sender keeps to 1-3 favourite destinations so ordering per (sender,dst) is exercised
      int fav[3] = {*range<int>(0, c.nthreads - 1), *range<int>(0, c.nthreads - 1), 255};
      for (int j = 0; j < n; j++) {
        Send x;
        int pick = *range<int>(0, 9);
        x.dst = pick < 5 ? fav[0] : pick < 7 ? fav[1] : pick < 9 ? fav[2] : *range<int>(0, c.nthreads - 1);
        x.flags = *rc::gen::weightedElement<int>({{5, 0}, {2, 1}, {1, 2}, {2, 4}, {1, 3}, {1, 5}, {1, 6}, {1, 7}});
        x.src_own = *range<int>(0, 1);
        sn.sends.push_back(x);
      }
      c.senders.push_back(sn);
    }
    if (*range<int>(0, 11) == 0) {
      // real queue-full: stall one started thread and burst past the 64 KiB pipe (2048 packets)
      c.stall_dst = *range<int>(c.skip_first ? 1 : 0, std::max(c.skip_first ? 1 : 0, c.nthreads - 1));
      if (c.stall_dst >= c.nthreads) c.stall_dst = 255;
      c.burst = *range<int>(2040, 2120);
      c.burst_flags = *rc::gen::element(0, 4, 4, 6);
      c.nested_sync = *range<int>(0, 1);  // the first burst message's handler synchronises with the other threads (needs >= 2 threads)
    }
    if (*range<int>(0, 7) == 0) {
      // sends accepted between tp_shutdown() and the moment the destination sees its stop message (it is held in a callback)
      c.late_dst = *range<int>(c.skip_first ? 1 : 0, std::max(c.skip_first ? 1 : 0, c.nthreads - 1));
      if (c.late_dst < c.nthreads && !(c.skip_first && c.late_dst == 0)) { c.late_burst = *rc::gen::element(3, 200, 1000, 1100, 1500, 1900); c.late_self = *range<int>(0, 1); c.late_by_self = *range<int>(0, 1); }
    }
    if (c.late_burst == 0 && *range<int>(0, 5) == 0) {
      // an external thread keeps sending to one started thread while tp_shutdown() is called
      c.race_dst = *range<int>(c.skip_first ? 1 : 0, std::max(c.skip_first ? 1 : 0, c.nthreads - 1));
      if (c.race_dst < c.nthreads && !(c.skip_first && c.race_dst == 0)) { c.race_n = *range<int>(12, 60); c.race_flags = *rc::gen::element(0, 0, 2, 4, 6) | (*range<int>(0, 2) == 0 ? 8 : 0); }
    }
    c.pool_flags = *rc::gen::weightedElement<int>({{3, 0}, {1, 1}, {2, 2}, {1, 3}});  // pool settings: BIND2CPU, CLOEXEC
    c.pvt_sources = (!c.skip_first && *range<int>(0, 4) == 0) ? 1 : 0;  // pipes on the virtual thread + one message while every worker is busy
    c.selfarg = *rc::gen::weightedElement<int>({{2, 0}, {1, 1}});  // first send of sender 0 passes the callback's own address as its argument
    if (*range<int>(0, 3) == 0) {
      // async operations between started threads (and the outside)
      std::vector<int> st;
      for (int t = 0; t < c.nthreads; t++) if (!(c.skip_first && t == 0)) st.push_back(t);
      int na = st.empty() ? 0 : *range<int>(1, 4);
      for (int i = 0; i < na; i++) {
        int alloc_on = *rc::gen::weightedElement<int>({{3, *rc::gen::elementOf(st)}, {1, 255}});
        int dst = (alloc_on == 255) ? *rc::gen::elementOf(st) : *rc::gen::weightedElement<int>({{1, *rc::gen::elementOf(st)}, {1, 255}});
        int free_on = *rc::gen::weightedElement<int>({{3, *rc::gen::elementOf(st)}, {1, 255}});
        c.aops.push_back(alloc_on); c.aops.push_back(dst); c.aops.push_back(free_on);
      }
    }
    c.plan = *bytes_upto(24);
    int nf = *rc::gen::weightedElement<int>({{3, 0}, {3, 1}, {2, 2}, {1, 4}});
    size_t total = 0;
    for (auto &s : c.senders) total += s.sends.size();
    for (int i = 0; i < nf; i++) {
      Fault f;
      bool wr = *range<int>(0, 3) != 0;
      f.fn = wr ? F_QWRITE : F_QREAD;
      f.k = *range<int>(1, (int)std::max<size_t>(2, wr ? total : total / 4 + 2));
      f.err = wr ? *rc::gen::element<int>(EAGAIN, EAGAIN, EPIPE, EBADF) : *rc::gen::element<int>(EAGAIN, EINTR);
      c.faults.push_back(f);
    }
    return c;
  });
}

// exhaustive single-fault sweep: one small fixed scenario shape, the queue write fails at every position k
static void fault_sweep(double scale) {
  int shapes = scale >= 4 ? 6 : 2;
  set_exhaustive(true);
  for (int sh = 0; sh < shapes; sh++) {
    MsgCase base;
    base.nthreads = 1 + sh % 4;
    for (int s = 0; s < 2; s++) {
      Sender sn;
      sn.in_pool = (s + sh) & 1;
      sn.pool_idx = 0;
      for (int j = 0; j < 12; j++) sn.sends.push_back(Send{(j * 7 + s + sh) % base.nthreads, ((j + sh) % 3 == 0) ? 4 : 0, 0});
      base.senders.push_back(sn);
    }
    for (int k = 1; k <= 24; k++)
      for (int err : {EAGAIN, EPIPE}) {
        MsgCase c = base;
        c.faults.push_back(Fault{F_QWRITE, k, err});
        if (!enum_case(c.ser(), [&]() { return run_case(c); })) return;
      }
  }
}

int main(int argc, char **argv) {
  add_check<MsgCase>("msg_scenarios", 1500, 100, genCase, run_case);
  add_enum_check("msg_fault_sweep", 100, fault_sweep, [](const std::string &t) { return run_case(MsgCase::parse(t)); });
  return driver_main(argc, argv);
}
