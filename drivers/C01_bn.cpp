// C01 -- multi-precision arithmetic: rapidcheck differential against GMP.
// Links against one shims/bn.c variant (digit width / CC mul-div / compiler / -O).
#include "pbt.hpp"
#include "../shims/bn_abi.h"
#include <gmpxx.h>
#include <memory>

using namespace pbt;

static long W, BITLEN, MAXD;

// ---------- mpz helpers ----------
static mpz_class from_le(const uint8_t *p, size_t n) {
  mpz_class z;
  mpz_import(z.get_mpz_t(), n, -1, 1, 0, 0, p);
  return z;
}
static mpz_class from_le(const Bytes &b) { return from_le(b.data(), b.size()); }
static Bytes to_le(const mpz_class &z) {
  size_t n = (mpz_sizeinbase(z.get_mpz_t(), 2) + 7) / 8;
  if (z == 0) return Bytes();
  Bytes b(n);
  size_t cnt = 0;
  mpz_export(b.data(), &cnt, -1, 1, 0, 0, z.get_mpz_t());
  b.resize(cnt);
  return b;
}
static size_t bitlen(const mpz_class &z) { return z == 0 ? 0 : mpz_sizeinbase(z.get_mpz_t(), 2); }
static size_t ndigits(const mpz_class &z) { return (bitlen(z) + W - 1) / W; }
static mpz_class pow2(size_t k) { mpz_class r = 1; r <<= k; return r; }
static size_t cnt_of(uint32_t cap_bits) { return (cap_bits + W - 1) / W; }
static mpz_class digit_from(const uint8_t *p) { return from_le(p, W / 8); }
static void digit_to(uint8_t *p, const mpz_class &z) {
  memset(p, 0, 16);
  Bytes b = to_le(z);
  memcpy(p, b.data(), std::min<size_t>(b.size(), 16));
}

// ---------- case ----------
struct Num {
  uint32_t cap = 0;
  Bytes val;  // little endian, minimal
  uint8_t junk = 0;
};
struct BnCase {
  int op = 0, alias = 0;
  Num a, b, c;
  uint64_t p1 = 0, p2 = 0, p3 = 0;
  Bytes d1, d2, d3;
  Bytes buf;
  std::string ser() const {
    Writer w;
    w.i("op", op).i("alias", alias);
    w.u("a.cap", a.cap).b("a.val", a.val).u("a.junk", a.junk);
    w.u("b.cap", b.cap).b("b.val", b.val).u("b.junk", b.junk);
    w.u("c.cap", c.cap).b("c.val", c.val).u("c.junk", c.junk);
    w.u("p1", p1).u("p2", p2).u("p3", p3).b("d1", d1).b("d2", d2).b("d3", d3).b("buf", buf);
    return w.str();
  }
  static BnCase parse(const std::string &t) {
    Reader r(t);
    BnCase c;
    c.op = (int)r.i("op"); c.alias = (int)r.i("alias");
    c.a.cap = (uint32_t)r.u("a.cap"); c.a.val = r.b("a.val"); c.a.junk = (uint8_t)r.u("a.junk");
    c.b.cap = (uint32_t)r.u("b.cap"); c.b.val = r.b("b.val"); c.b.junk = (uint8_t)r.u("b.junk");
    c.c.cap = (uint32_t)r.u("c.cap"); c.c.val = r.b("c.val"); c.c.junk = (uint8_t)r.u("c.junk");
    c.p1 = r.u("p1"); c.p2 = r.u("p2"); c.p3 = r.u("p3");
    c.d1 = r.b("d1"); c.d2 = r.b("d2"); c.d3 = r.b("d3"); c.buf = r.b("buf");
    return c;
  }
};
void showValue(const BnCase &c, std::ostream &os) { os << c.ser(); }

// ---------- generators ----------
// A value in [0, 2^maxbits): mixture biased to carry/borrow/normalisation edges.
static rc::Gen<mpz_class> genValue(size_t maxbits) {
  if (maxbits == 0) return rc::gen::just(mpz_class(0));
  return rc::gen::map(
      rc::gen::tuple(range<int>(0, 15), range<size_t>(0, maxbits), bytes_len((maxbits + 7) / 8),
                     range<int>(0, 3)),
      [maxbits](const std::tuple<int, size_t, Bytes, int> &t) {
        int kind = std::get<0>(t);
        size_t k = std::get<1>(t);
        const Bytes &rnd = std::get<2>(t);
        int sub = std::get<3>(t);
        mpz_class lim = pow2(maxbits), v;
        size_t wd = (size_t)W;
        switch (kind) {
        case 0: v = 0; break;
        case 1: v = 1 + sub; break;
        case 2: v = pow2(k); break;
        case 3: v = pow2(k) - 1; break;
        case 4: v = pow2(k) + 1; break;
        case 5: v = lim - 1 - sub; break;                      // all ones at capacity
        case 6: {                                              // alternating MAX,0 digits
          v = 0;
          for (size_t i = (size_t)sub & 1; i * wd < k; i += 2) v += (pow2(wd) - 1) << (i * wd);
          break;
        }
        case 7: {                                              // top digit MAX / MAX-1 / HI_BIT / 1
          size_t nd = std::max<size_t>(1, (k + wd - 1) / wd);
          v = from_le(rnd) % pow2((nd - 1) * wd);
          mpz_class top = sub == 0 ? pow2(wd) - 1 : sub == 1 ? pow2(wd) - 2 : sub == 2 ? pow2(wd - 1) : mpz_class(1);
          v += top << ((nd - 1) * wd);
          break;
        }
        case 8: {                                              // digits all MAX except lowest
          size_t nd = std::max<size_t>(1, (k + wd - 1) / wd);
          v = pow2(nd * wd) - pow2(wd) + (from_le(rnd) % pow2(wd));
          break;
        }
        case 9: v = (from_le(rnd) % pow2(std::min<size_t>(k, wd))); break;  // single digit
        default: v = from_le(rnd) % pow2(k ? k : 1); break;                  // random, random length
        }
        if (v < 0) v = 0;
        if (v >= lim) v %= lim;
        return v;
      });
}

// capacity in bits: biased to 1..3 digits and to exact multiples of W +-1
static rc::Gen<uint32_t> genCap(uint32_t lo_bits = 1) {
  return rc::gen::map(rc::gen::tuple(range<int>(0, 9), range<uint32_t>(1, (uint32_t)MAXD), range<int>(-1, 1)),
                      [lo_bits](const std::tuple<int, uint32_t, int> &t) {
                        int kind = std::get<0>(t);
                        uint32_t d = std::get<1>(t);
                        if (kind < 5) d = 1 + d % 3;
                        else if (kind < 7) d = 1 + d % 8;
                        long bits = (long)d * W + (std::get<2>(t) < 0 ? -(W - 1) : 0) + (kind == 9 ? std::get<2>(t) : 0);
                        if (bits < (long)lo_bits) bits = lo_bits;
                        if (bits > BITLEN) bits = BITLEN;
                        if (bits < 1) bits = 1;
                        return (uint32_t)bits;
                      });
}
static rc::Gen<uint8_t> genJunk() { return rc::gen::element<uint8_t>(0x00, 0xff, 0xa5, 0x01, 0x80); }

// operand with capacity cap: value anywhere below 2^(count*W)
static rc::Gen<Num> genNumCap(uint32_t cap) {
  size_t full = cnt_of(cap) * (size_t)W;
  return rc::gen::map(rc::gen::tuple(genValue(full), genJunk()), [cap](const std::tuple<mpz_class, uint8_t> &t) {
    Num n;
    n.cap = cap;
    n.val = to_le(std::get<0>(t));
    n.junk = std::get<1>(t);
    return n;
  });
}
static rc::Gen<Num> genNum() {
  return rc::gen::mapcat(genCap(), [](uint32_t cap) { return genNumCap(cap); });
}
static Num mkNum(uint32_t cap, const mpz_class &v, uint8_t junk) {
  Num n;
  n.cap = cap;
  n.val = to_le(v);
  n.junk = junk;
  return n;
}
static rc::Gen<Bytes> genDigit() {
  return rc::gen::map(genValue((size_t)W), [](const mpz_class &v) { Bytes b = to_le(v); b.resize(16, 0); return b; });
}

// ---------- shim call ----------
static void fill(sb_num &d, const Num &n) {
  d.cap_bits = n.cap;
  d.len = (uint32_t)std::min<size_t>(n.val.size(), SB_MAXB);
  d.junk = n.junk;
  memcpy(d.val, n.val.data(), d.len);
}
struct Call {
  std::unique_ptr<sb_in> in;
  std::unique_ptr<sb_out> out;
  mpz_class A, B, C;           // input values
  size_t ca, cb, cc;           // capacities in digits
  mpz_class ra, rb, rc_;       // operand values after the call
};
static Call do_call(const BnCase &c) {
  Call k;
  k.in.reset(new sb_in());
  k.out.reset(new sb_out());
  memset(k.in.get(), 0, sizeof(sb_in));
  k.in->op = c.op;
  k.in->alias = c.alias;
  fill(k.in->a, c.a); fill(k.in->b, c.b); fill(k.in->c, c.c);
  k.in->p1 = c.p1; k.in->p2 = c.p2; k.in->p3 = c.p3;
  memcpy(k.in->d1, c.d1.data(), std::min<size_t>(16, c.d1.size()));
  memcpy(k.in->d2, c.d2.data(), std::min<size_t>(16, c.d2.size()));
  memcpy(k.in->d3, c.d3.data(), std::min<size_t>(16, c.d3.size()));
  k.in->buf_len = (uint32_t)std::min<size_t>(c.buf.size(), SB_ARR);
  memcpy(k.in->buf, c.buf.data(), k.in->buf_len);
  k.A = from_le(c.a.val); k.B = from_le(c.b.val); k.C = from_le(c.c.val);
  k.ca = cnt_of(c.a.cap); k.cb = cnt_of(c.b.cap); k.cc = cnt_of(c.c.cap);
  sb_call(k.in.get(), k.out.get());
  k.ra = from_le(k.out->a.val, k.out->a.len);
  k.rb = from_le(k.out->b.val, k.out->b.len);
  k.rc_ = from_le(k.out->c.val, k.out->c.len);
  return k;
}

#define REQ(cond, msg) PBT_REQUIRE(cond, msg)
static std::string zs(const mpz_class &z) { return "0x" + z.get_str(16); }

// result object checks: canonical digits field; value equals expected
static Verdict chk_res(const char *what, const sb_res &r, const mpz_class &got, const mpz_class &exp,
                       long count_expected) {
  REQ(r.canon, what << ": digits field not canonical (digits=" << r.digits << " count=" << r.count << ")");
  REQ(got == exp, what << ": value " << zs(got) << " != expected " << zs(exp));
  if (count_expected >= 0)
    REQ((long)r.count == count_expected, what << ": capacity field changed " << r.count << " != " << count_expected);
  return Verdict::pass();
}
#define CHK(v)                                                                 \
  do {                                                                         \
    Verdict _v = (v);                                                          \
    if (!_v.ok) return _v;                                                     \
  } while (0)

// carry chain crossing >= 2 digit boundaries in x+y (or borrow in x-y)
static bool long_carry(const mpz_class &x, const mpz_class &y, bool sub) {
  mpz_class s = sub ? (x >= y ? mpz_class(x - y) : mpz_class(y - x)) : mpz_class(x + y), car;
  if (sub) { car = (x >= y ? x : y) ^ (x >= y ? y : x) ^ s; }
  else car = s ^ x ^ y;
  int run = 0, best = 0;
  size_t nb = bitlen(car);
  for (size_t i = (size_t)W; i <= nb; i += (size_t)W) {
    if (mpz_tstbit(car.get_mpz_t(), i)) { run++; best = std::max(best, run); } else run = 0;
  }
  return best >= 2;
}
static void note_common(const BnCase &c, const Call &k) {
  bool nt = false;
  if (c.alias) { label("alias"); nt = true; }
  if (c.a.junk && ndigits(k.A) < k.ca) { label("junk_above_digits"); nt = true; }
  if (nt) nontrivial_cur();
}

#include "C01_oracle.inc"

// ---------- case generators (rc::gen::exec keeps every choice shrinkable) ----------
static const unsigned long SMALL_PRIMES[] = {3, 5, 7, 11, 13, 17, 29, 37, 41, 53, 61, 73, 89, 97, 101, 113, 193, 241, 251, 257};
static const char *BIG_PRIMES[] = {
    // NIST / GOST / brainpool field primes and group orders (hex)
    "fffffffffffffffffffffffffffffffeffffffffffffffff",                                                   // p192 (3 mod 4)
    "ffffffffffffffffffffffffffffffff000000000000000000000001",                                           // p224 (1 mod 8)
    "ffffffff00000001000000000000000000000000ffffffffffffffffffffffff",                                   // p256
    "ffffffff00000000ffffffffffffffffbce6faada7179e84f3b9cac2fc632551",                                   // n256
    "a9fb57dba1eea9bc3e660a909d838d726e3bf623d52620282013481d1f6e5377",                                   // brainpoolP256r1 p
    "fffffffffffffffffffffffffffffffffffffffffffffffffffffffffffffd97",                                   // GOST p (tc26 paramSetA-like)
    "8000000000000000000000000000000000000000000000000000000000000431",                                   // GOST CryptoPro-A like p
    "ffffffffffffffffffffffffffffffffffffffffffffffffffffffffffffffffffffffffffffffffffffffffffffffffffffffffffffffffffffffffffffffffffffffffffffdc7", // tc26 512 A
    "01ffffffffffffffffffffffffffffffffffffffffffffffffffffffffffffffffffffffffffffffffffffffffffffffffffffffffffffffffffffffffffffffffffffffffffffffff", // p521
    "fffffffffffffffffffffffffffffffffffffffffffffffffffffffffffffffeffffffff0000000000000000ffffffff",   // p384
    "ffffffffffffffffffffffffffffffff7fffffff",                                                           // secp160r1 p (3 mod 4)
    "fffffffffffffffffffffffffffffffffffffffffffffffffffffffefffffc2f",                                   // secp256k1 p
    "e95e4a5f737059dc60dfc7ad95b3d8139515620f",                                                           // brainpoolP160r1 p
    "d35e472036bc4fb7e13c785ed201e065f98fcfa6f6f40def4f92b9ec7893ec28fcd412b1f1b32e27",                   // brainpoolP320r1 p
    "2000000000000000000000000000000000000000000000000000000000000000000000000000000000000000000000000000000000000000000000000000000000000000000000000000000000000000000000000000000000000000000000000000000000000000000000000000000000000000000000000000000000001",
};
static std::vector<mpz_class> &primes() {
  static std::vector<mpz_class> v;
  if (v.empty()) {
    for (unsigned long p : SMALL_PRIMES) v.push_back(mpz_class(p));
    for (const char *s : BIG_PRIMES) {
      mpz_class z(s, 16);
      if (mpz_probab_prime_p(z.get_mpz_t(), 30) && (long)bitlen(z) * 2 + 2 * W <= BITLEN) v.push_back(z);
    }
    // some mid-size primes found deterministically (next primes after 2^k + c)
    for (int kb : {15, 16, 31, 32, 33, 63, 64, 65, 127, 128, 129}) {
      for (int off : {0, 12345}) {
        mpz_class z = pow2(kb) + off, p;
        mpz_nextprime(p.get_mpz_t(), z.get_mpz_t());
        if ((long)bitlen(p) * 2 + 2 * W <= BITLEN) v.push_back(p);
      }
    }
  }
  return v;
}

static rc::Gen<BnCase> genDigitCase() {
  return rc::gen::exec([]() {
    BnCase c;
    c.op = *rc::gen::element<int>(OP_D_MULT, OP_D_MULT, OP_D_DIV, OP_D_DIV, OP_D_DIV, OP_D_GCD, OP_D_GCD_BIN, OP_D_EGCD, OP_D_BITS);
    c.d1 = *genDigit();
    c.d2 = *genDigit();
    c.d3 = *genDigit();
    return c;
  });
}

// capacity for a result able (or deliberately just unable) to hold `need` digits
static uint32_t capFor(size_t need_digits, int slack /* -1, 0, +1, +many */) {
  long d = (long)need_digits + slack;
  if (d < 1) d = 1;
  if (d > MAXD) d = MAXD;
  return (uint32_t)(d * W);
}

static rc::Gen<BnCase> genArithCase() {
  return rc::gen::exec([]() {
    BnCase c;
    c.op = *rc::gen::element<int>(OP_ADD, OP_ADD, OP_SUB, OP_SUB, OP_ADD_DIGIT, OP_SUB_DIGIT, OP_MULT, OP_MULT, OP_MULT_DIGIT,
                                  OP_SQUARE, OP_EXP_DIGIT, OP_DIV, OP_DIV, OP_DIV, OP_DIV, OP_LSHIFT, OP_RSHIFT, OP_AND, OP_OR, OP_XOR,
                                  OP_BIT_SET, OP_QUERY, OP_ASSIGN, OP_ASSIGN_2EXP, OP_ASSIGN_DIGIT, OP_GCD, OP_GCD_BIN, OP_SQRT);
    c.a = *genNum();
    mpz_class A = from_le(c.a.val);
    size_t ca = cnt_of(c.a.cap);
    c.d1 = *genDigit();
    c.p1 = 0;
    switch (c.op) {
    case OP_ADD: case OP_SUB: case OP_AND: case OP_OR: case OP_XOR: case OP_MULT: case OP_ASSIGN:
      c.alias = (c.op != OP_ASSIGN) ? *rc::gen::weightedElement<int>({{5, 0}, {1, 1}}) : 0;
      c.b = *genNum();
      c.p1 = *range<int>(0, 3) == 0 ? 1 : 0;  // NULL carry pointer
      if (c.op == OP_MULT && *range<int>(0, 2) == 0) {
        // aim at the capacity edge: digits(a)+digits(b) == count(a) or +1
        mpz_class B = from_le(c.b.val);
        size_t need = ndigits(A) + ndigits(B);
        c.a.cap = capFor(need, *range<int>(-1, 1));
        if (cnt_of(c.a.cap) < ndigits(A)) c.a.cap = (uint32_t)(ndigits(A) * W);
      }
      break;
    case OP_ADD_DIGIT: case OP_SUB_DIGIT:
      c.p1 = *range<int>(0, 3) == 0 ? 1 : 0;
      break;
    case OP_MULT_DIGIT:
      if (*range<int>(0, 2) == 0) { Bytes d(16, 0); d[0] = (uint8_t)*range<int>(0, 5); c.d1 = d; }
      break;
    case OP_EXP_DIGIT: {
      Bytes d(16, 0);
      d[0] = (uint8_t)*range<int>(0, 9);
      c.d1 = d;
      if (*range<int>(0, 3) == 0) c.d1 = *genDigit();  // huge exponents: must fail loudly unless base <= 1
      // keep base small enough to be interesting
      size_t mb = std::max<size_t>(1, (ca * (size_t)W) / std::max<int>(1, d[0]));
      if (*range<int>(0, 1)) c.a.val = to_le(*genValue(std::min<size_t>(mb + 2, ca * (size_t)W)));
      break;
    }
    case OP_DIV: {
      c.alias = *rc::gen::weightedElement<int>({{5, 0}, {2, 1}, {3, 2}, {1, 3}});
      c.b = *genNum();
      c.c = *genNum();
      int shape = *range<int>(0, 5);
      mpz_class B = from_le(c.b.val);
      if (shape <= 1 && B != 0) {
        // dividend = q*d + r with r in {0, d-1, random}
        size_t qbits = *range<size_t>(0, 3 * (size_t)W);
        mpz_class q = *genValue(qbits ? qbits : 1);
        mpz_class r = shape == 0 ? mpz_class(0) : mpz_class(B - 1);
        mpz_class n = q * B + r;
        if ((long)bitlen(n) <= BITLEN - W) {
          c.a.val = to_le(n);
          size_t nd = ndigits(n);
          c.a.cap = capFor(std::max<size_t>(nd, 1), *range<int>(0, 1));
        }
      }
      if (c.alias == 3 && *range<int>(0, 1)) c.c.cap = 0;
      break;
    }
    case OP_LSHIFT:
      c.p1 = *range<size_t>(0, ca * (size_t)W - 1);  // asserted domain: bits < count*W
      if (*range<int>(0, 2) == 0) c.p1 = *rc::gen::element<size_t>(0, 1, 7, 8, (size_t)W - 1, (size_t)W, (size_t)W + 1, 2 * (size_t)W) % (ca * (size_t)W);
      break;
    case OP_RSHIFT: {
      size_t lim = ndigits(A) * (size_t)W;  // asserted domain: bits <= digits*W
      c.p1 = *range<size_t>(0, lim);
      if (*range<int>(0, 2) == 0) c.p1 = std::min<size_t>(lim, *rc::gen::element<size_t>(0, 1, 7, 8, (size_t)W - 1, (size_t)W, (size_t)W + 1, 2 * (size_t)W));
      break;
    }
    case OP_BIT_SET: case OP_ASSIGN_2EXP:
      c.p1 = *range<size_t>(0, ca * (size_t)W + (size_t)W);
      c.p2 = *range<int>(0, 1);
      break;
    case OP_QUERY:
      if (*range<int>(0, 3)) {
        c.b = *genNum();
        int rel = *range<int>(0, 3);
        if (rel == 0) c.b.val = c.a.val;                       // equal values, different capacity
        else if (rel == 1 && A > 0 && cnt_of(c.b.cap) >= ndigits(A)) c.b.val = to_le(A - 1);
        if (cnt_of(c.b.cap) < ndigits(from_le(c.b.val))) c.b.cap = (uint32_t)std::min<long>(BITLEN, (long)ndigits(from_le(c.b.val)) * W);
      }
      c.p1 = *range<size_t>(0, ca * (size_t)W + 3);
      break;
    case OP_GCD: case OP_GCD_BIN: {
      c.alias = *rc::gen::weightedElement<int>({{4, 0}, {1, 1}});  // result aliasing the 2nd operand is not a supported pattern (operand is overwritten first)
      c.b = *genNum();
      c.c = *genNum();
      if (*range<int>(0, 1)) {
        // common factor
        size_t gb = *range<size_t>(1, 2 * (size_t)W);
        mpz_class g = *genValue(gb);
        mpz_class x = *genValue(2 * (size_t)W), y = *genValue(2 * (size_t)W);
        if (g > 0 && (long)bitlen(g * x) < BITLEN - W && (long)bitlen(g * y) < BITLEN - W) {
          c.a = mkNum(capFor(ndigits(g * x), *range<int>(0, 2)), g * x, c.a.junk);
          c.b = mkNum(capFor(ndigits(g * y), *range<int>(0, 2)), g * y, c.b.junk);
        }
      }
      break;
    }
    case OP_SQRT: {
      c.p1 = *rc::gen::element<uint64_t>(0, 1, 1, 2, 3, 5);
      if (*range<int>(0, 2) == 0) {
        mpz_class r = *genValue(ca * (size_t)W / 2);
        mpz_class sq = r * r + *range<int>(-1, 1);
        if (sq >= 0 && ndigits(sq) <= ca) c.a.val = to_le(sq);
      }
      break;
    }
    default: break;
    }
    return c;
  });
}

// modulus m >= 2 and a capacity plan; op specific operand domains
static rc::Gen<BnCase> genModCase() {
  return rc::gen::exec([]() {
    BnCase c;
    c.op = *rc::gen::element<int>(OP_MOD, OP_MOD_ADD, OP_MOD_SUB, OP_MOD_MULT, OP_MOD_MULT, OP_MOD_MULT_DIGIT, OP_MOD_SQUARE,
                                  OP_MOD_EXP, OP_MOD_EXP_DIGIT, OP_MOD_INV, OP_MOD_INV, OP_MOD_DIV, OP_MOD_REDUCE, OP_MOD_LEGENDRE,
                                  OP_MOD_SQRT, OP_MOD_SQRT);
    bool need_prime = (c.op == OP_MOD_LEGENDRE || c.op == OP_MOD_SQRT);
    bool need_odd = need_prime || c.op == OP_MOD_INV || c.op == OP_MOD_DIV;
    bool heavy = (c.op == OP_MOD_EXP || c.op == OP_MOD_SQRT || c.op == OP_MOD_LEGENDRE || c.op == OP_MOD_EXP_DIGIT);
    size_t maxmbits = std::min<size_t>((size_t)(BITLEN - 2 * W) / 2, heavy ? 521 : 1024);
    if (maxmbits < 8) maxmbits = 8;
    mpz_class M;
    if (need_prime || *range<int>(0, 2) == 0) {
      M = *rc::gen::elementOf(primes());
    } else {
      M = *genValue(*range<size_t>(2, maxmbits));
      if (M < 3) M = 3;
      if (need_odd && mpz_even_p(M.get_mpz_t())) M += 1;
    }
    size_t md = ndigits(M);
    // capacity plan: generous (2*md+1 .. +3), exact md, md+1, 2*md
    int plan = *rc::gen::weightedElement<int>({{6, 0}, {1, 1}, {1, 2}, {1, 3}});
    size_t cad = plan == 0 ? 2 * md + 1 + *range<size_t>(0, 2) : plan == 1 ? md : plan == 2 ? md + 1 : 2 * md;
    if ((long)cad > MAXD) cad = (size_t)MAXD;
    if (cad < md) cad = md;
    uint8_t ja = *genJunk(), jb = *genJunk(), jc = *genJunk();
    size_t ccd = md + (*range<int>(0, 3) == 0 ? 1 : 0);
    if (ccd > cad) ccd = cad;
    c.c = mkNum((uint32_t)(ccd * W), M, jc);
    auto below = [&](const mpz_class &lim) {
      mpz_class v = *genValue(bitlen(lim));
      int edge = *range<int>(0, 9);
      if (edge == 0) v = lim - 1; else if (edge == 1) v = lim - 2; else if (edge == 2) v = 1;
      if (v < 0) v = 0;
      return mpz_class(v % lim);
    };
    mpz_class A = below(M), B = below(M);
    switch (c.op) {
    case OP_MOD: case OP_MOD_REDUCE:
      A = *genValue(std::min<size_t>(cad * (size_t)W, (size_t)BITLEN));
      if (*range<int>(0, 3) == 0) A = M * *range<int>(0, 3) + *range<int>(0, 1) * (M - 1);
      if (ndigits(A) > cad) A %= pow2(cad * (size_t)W);
      break;
    case OP_MOD_MULT: case OP_MOD_SQUARE: case OP_MOD_MULT_DIGIT:
      c.d1 = *genDigit();
      if (*range<int>(0, 2) == 0) { Bytes d(16, 0); d[0] = (uint8_t)*range<int>(0, 5); c.d1 = d; }
      break;
    case OP_MOD_EXP:
      B = *genValue(bitlen(M));  // exponent: any value up to the modulus length
      if (*range<int>(0, 4) == 0) B = *range<int>(0, 4);
      break;
    case OP_MOD_EXP_DIGIT:
      c.p1 = *rc::gen::oneOf(range<uint64_t>(0, 9), rc::gen::resize(100, rc::gen::arbitrary<uint64_t>()));
      break;
    case OP_MOD_INV: case OP_MOD_DIV: {
      c.p1 = c.op == OP_MOD_INV ? *rc::gen::element<uint64_t>(0, 0, 3, 1, 2, 4) : 0;
      mpz_class &X = c.op == OP_MOD_INV ? A : B;
      // make X a unit: strip common factors (X in 1..M-1)
      if (X == 0) X = 1;
      for (int guard = 0; guard < 64; guard++) {
        mpz_class g; mpz_gcd(g.get_mpz_t(), X.get_mpz_t(), M.get_mpz_t());
        if (g == 1) break;
        X /= g;
        if (X == 0) X = 1;
      }
      { mpz_class g; mpz_gcd(g.get_mpz_t(), X.get_mpz_t(), M.get_mpz_t()); if (g != 1) X = 1; }
      break;
    }
    case OP_MOD_SQRT:
      if (*range<int>(0, 2)) { mpz_class r = below(M); A = (r * r) % M; }  // residues 2/3 of the time
      break;
    default: break;
    }
    c.a = mkNum((uint32_t)(cad * W), A, ja);
    size_t cbd = std::max<size_t>(ndigits(B), 1) + *range<size_t>(0, 1);
    if ((long)cbd > MAXD) cbd = (size_t)MAXD;
    c.b = mkNum((uint32_t)(cbd * W), B, jb);
    c.alias = ((c.op == OP_MOD_ADD || c.op == OP_MOD_SUB || c.op == OP_MOD_MULT) && *range<int>(0, 5) == 0) ? 1 : 0;
    return c;
  });
}

static rc::Gen<BnCase> genRecodeCase() {
  return rc::gen::exec([]() {
    BnCase c;
    c.op = *rc::gen::element<int>(OP_NAF, OP_NAF, OP_JSF, OP_JSF, OP_COMBO);
    size_t maxbits = std::min<size_t>((size_t)BITLEN, 600);
    c.a = mkNum((uint32_t)BITLEN, *genValue(*range<size_t>(0, maxbits)), *genJunk());
    // capacity: exactly the digits of the value (no room for the carry of a recoding step), or one to three spare digits
    c.a.cap = (uint32_t)std::min<long>(BITLEN, (long)std::max<size_t>(1, ndigits(from_le(c.a.val)) + (size_t)*range<int>(0, 3)) * W);
    mpz_class A = from_le(c.a.val);
    if (c.op == OP_NAF) {
      c.p1 = *range<uint64_t>(2, 8);
      c.p2 = bitlen(A) + 1 + *rc::gen::weightedElement<int>({{6, 0}, {2, 1}, {2, 5}, {1, -1}});
    } else if (c.op == OP_JSF) {
      c.b = mkNum((uint32_t)BITLEN, *genValue(*range<size_t>(0, maxbits)), *genJunk());
      c.b.cap = (uint32_t)std::min<long>(BITLEN, (long)std::max<size_t>(1, ndigits(from_le(c.b.val)) + (size_t)*range<int>(0, 3)) * W);
      c.p2 = 2 * (std::max(bitlen(A), bitlen(from_le(c.b.val))) + 1) + *rc::gen::weightedElement<int>({{6, 0}, {2, 1}, {2, 6}, {1, -1}});
    } else {
      size_t w = *range<size_t>(1, std::min<size_t>(9, (size_t)W)), cnt = *range<size_t>(1, 80);
      c.p2 = w; c.p3 = cnt;
      c.p1 = (w - 1) * cnt + *range<size_t>(0, cnt - 1);
    }
    return c;
  });
}

static rc::Gen<BnCase> genIoCase() {
  return rc::gen::exec([]() {
    BnCase c;
    c.op = *rc::gen::element<int>(OP_IMPORT, OP_EXPORT, OP_EXPORT);
    c.a = *genNum();
    c.p1 = *range<uint64_t>(0, 3);
    size_t ca = cnt_of(c.a.cap), bytes_cap = ca * (size_t)W / 8;
    if (c.op == OP_IMPORT) {
      size_t n = *rc::gen::weightedElement<size_t>({{1, 0}, {3, bytes_cap}, {2, bytes_cap + 1}, {6, *range<size_t>(1, bytes_cap)}});
      Bytes raw = *bytes_len(n);
      if (*range<int>(0, 3) == 0 && !raw.empty()) raw[c.p1 == 0 ? 0 : raw.size() - 1] = 0;  // leading zero byte
      if (c.p1 <= 1) c.buf = raw;
      else {
        std::string t;
        bool upper = *range<int>(0, 1);
        int sep = *range<int>(0, 3);
        for (size_t i = 0; i < raw.size(); i++) {
          char b[4];
          snprintf(b, sizeof b, upper ? "%02X" : "%02x", raw[i]);
          t += b;
          if (sep == 1 && i + 1 < raw.size()) t += ':';
          if (sep == 2 && (i & 3) == 3) t += ' ';
        }
        if (*range<int>(0, 9) == 0) t += "7";  // odd digit count probe
        c.buf.assign(t.begin(), t.end());
      }
    } else {
      c.p2 = *range<uint64_t>(0, 1);  // BN_EXPORT_F_AUTO_SIZE
      mpz_class A = from_le(c.a.val);
      size_t minb = std::max<size_t>(1, (bitlen(A) + 7) / 8), digb = ndigits(A) * (size_t)W / 8;
      size_t scale = c.p1 >= 2 ? 2 : 1;
      c.p3 = *rc::gen::weightedElement<size_t>({{1, 0}, {1, 1}, {3, scale * minb}, {2, scale * minb - 1}, {2, scale * minb + 1}, {2, scale * digb},
                                                {2, scale * digb + 1}, {2, scale * digb > 0 ? scale * digb - 1 : 0},
                                                {4, *range<size_t>(0, scale * (digb + 3))}});
    }
    return c;
  });
}

// exhaustive small space: W-bit digit pairs for W == 8 (65,536 pairs per op) and
// one-digit bn operands; skipped (reported as such) for wider digits.
static void enum_small(double scale) {
  if (W != 8) { label("skipped_W_not_8"); return; }
  int step = scale >= 1.0 ? 1 : 7;  // quick tier samples every 7th pair
  set_exhaustive(step == 1);
  int ops[] = {OP_D_MULT, OP_D_GCD, OP_D_GCD_BIN, OP_D_EGCD, OP_ADD, OP_SUB, OP_MULT, OP_DIV};
  for (int op : ops) {
    for (int x = 0; x < 256; x++) {
      for (int y = (x * 3) % step; y < 256; y += step) {
        BnCase c;
        c.op = op;
        if (op < OP_ADD) { c.d1 = Bytes(16, 0); c.d2 = Bytes(16, 0); c.d1[0] = (uint8_t)x; c.d2[0] = (uint8_t)y; }
        else {
          c.a = mkNum(op == OP_MULT ? 16 : 8, mpz_class(x), 0xa5);
          c.b = mkNum(8, mpz_class(y), 0xa5);
          c.c = mkNum(8, mpz_class(0), 0xa5);
        }
        if (!enum_case(c.ser(), [&]() { return run_case(c); })) return;
      }
    }
  }
  // 2-digit / 1-digit division, all 16.7M pairs at full scale
  int dstep = scale >= 4.0 ? 1 : scale >= 1.0 ? 5 : 61;
  for (int n = 0; n < 65536; n += 1) {
    for (int d = 1 + (n % dstep); d < 256; d += dstep) {
      BnCase c;
      c.op = OP_DIV;
      c.a = mkNum(24, mpz_class(n), 0xff);
      c.b = mkNum(8, mpz_class(d), 0xff);
      c.c = mkNum(8, mpz_class(0), 0xff);
      // cheap inline path: avoid serialising 16M cases unless failing
      st().cs->evals++;
      Verdict v = run_case(c);
      if (!v.ok) { enum_case(c.ser(), [&]() { return v; }); return; }
    }
  }
}

int main(int argc, char **argv) {
  W = sb_info(SB_INFO_W);
  BITLEN = sb_info(SB_INFO_BITLEN);
  MAXD = BITLEN / W;
  add_check<BnCase>("digit", 20000, 100, genDigitCase, run_case);
  add_check<BnCase>("arith", 60000, 100, genArithCase, run_case);
  add_check<BnCase>("mod", 6000, 100, genModCase, run_case);
  add_check<BnCase>("recode", 8000, 100, genRecodeCase, run_case);
  add_check<BnCase>("io", 20000, 100, genIoCase, run_case);
  add_enum_check("enum_small", 100, enum_small, [](const std::string &t) { return run_case(BnCase::parse(t)); });
  return driver_main(argc, argv);
}
