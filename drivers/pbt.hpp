// pbt.hpp -- shared plumbing for all rapidcheck drivers in /verif/drivers.
//
// A driver registers named checks. Each check has a generator for a
// serialisable Case and a pure function run(Case) -> Verdict. The driver main:
//   exe --out DIR --variant NAME [--scale F] [--seed N] [--known p1,p2] [--only chk]
//       runs every check with rapidcheck, writes DIR/NAME.json (counters, samples)
//       and, for each failing check, DIR/NAME.<check>.fail (shrunk case, reason).
//   exe --replay FILE [--known ...]
//       parses the case file and calls run() directly (no rapidcheck): exit 0 =
//       passes, 1 = fails (prints reason).
// All randomness lives in rapidcheck generators seeded from --seed.
#pragma once
#include <rapidcheck.h>
#include <cstdint>
#include <cstdio>
#include <cstdlib>
#include <cstring>
#include <csignal>
#include <unistd.h>
#include <fcntl.h>
#include <functional>
#include <map>
#include <set>
#include <unordered_set>
#include <sstream>
#include <string>
#include <vector>
#include <chrono>

namespace pbt {

typedef std::vector<uint8_t> Bytes;

struct Verdict {
  bool ok;
  std::string why;
  static Verdict pass() { return Verdict{true, ""}; }
  static Verdict fail(const std::string &w) { return Verdict{false, w}; }
};
#define PBT_REQUIRE(cond, msg)                                                 \
  do {                                                                         \
    if (!(cond)) {                                                             \
      std::ostringstream _o;                                                   \
      _o << msg;                                                               \
      return pbt::Verdict::fail(_o.str());                                     \
    }                                                                          \
  } while (0)

// ---------- hex / serialisation helpers ----------
inline std::string hex(const uint8_t *p, size_t n) {
  static const char *t = "0123456789abcdef";
  std::string s;
  s.reserve(n * 2);
  for (size_t i = 0; i < n; i++) {
    s.push_back(t[p[i] >> 4]);
    s.push_back(t[p[i] & 15]);
  }
  return s;
}
inline std::string hex(const Bytes &b) { return hex(b.data(), b.size()); }
inline Bytes unhex(const std::string &s) {
  Bytes b;
  auto v = [](char c) -> int {
    if (c >= '0' && c <= '9') return c - '0';
    if (c >= 'a' && c <= 'f') return c - 'a' + 10;
    if (c >= 'A' && c <= 'F') return c - 'A' + 10;
    return -1;
  };
  for (size_t i = 0; i + 1 < s.size(); i += 2) {
    int a = v(s[i]), c = v(s[i + 1]);
    if (a < 0 || c < 0) break;
    b.push_back((uint8_t)(a * 16 + c));
  }
  return b;
}

// key=value line writer/reader (order independent, one field per line)
struct Writer {
  std::ostringstream o;
  Writer &i(const char *k, long long v) { o << k << "=" << v << "\n"; return *this; }
  Writer &u(const char *k, unsigned long long v) { o << k << "=" << v << "\n"; return *this; }
  Writer &b(const char *k, const Bytes &v) { o << k << "=x" << hex(v) << "\n"; return *this; }
  Writer &s(const char *k, const std::string &v) {
    o << k << "=x" << hex((const uint8_t *)v.data(), v.size()) << "\n";
    return *this;
  }
  Writer &iv(const char *k, const std::vector<long long> &v) {
    o << k << "=";
    for (size_t j = 0; j < v.size(); j++) o << (j ? "," : "") << v[j];
    o << "\n";
    return *this;
  }
  std::string str() const { return o.str(); }
};
struct Reader {
  std::map<std::string, std::string> kv;
  explicit Reader(const std::string &text) {
    std::istringstream in(text);
    std::string line;
    while (std::getline(in, line)) {
      size_t p = line.find('=');
      if (p == std::string::npos || line[0] == '#') continue;
      kv[line.substr(0, p)] = line.substr(p + 1);
    }
  }
  bool has(const char *k) const { return kv.count(k) != 0; }
  long long i(const char *k, long long d = 0) const {
    auto it = kv.find(k);
    return it == kv.end() ? d : strtoll(it->second.c_str(), nullptr, 10);
  }
  unsigned long long u(const char *k, unsigned long long d = 0) const {
    auto it = kv.find(k);
    return it == kv.end() ? d : strtoull(it->second.c_str(), nullptr, 10);
  }
  Bytes b(const char *k) const {
    auto it = kv.find(k);
    if (it == kv.end() || it->second.empty()) return Bytes();
    return unhex(it->second.substr(1));
  }
  std::string s(const char *k) const {
    Bytes v = b(k);
    return std::string(v.begin(), v.end());
  }
  std::vector<long long> iv(const char *k) const {
    std::vector<long long> r;
    auto it = kv.find(k);
    if (it == kv.end()) return r;
    std::istringstream in(it->second);
    std::string tok;
    while (std::getline(in, tok, ','))
      if (!tok.empty()) r.push_back(strtoll(tok.c_str(), nullptr, 10));
    return r;
  }
};

inline uint64_t fnv(const void *p, size_t n, uint64_t h = 1469598103934665603ULL) {
  const uint8_t *c = (const uint8_t *)p;
  for (size_t i = 0; i < n; i++) { h ^= c[i]; h *= 1099511628211ULL; }
  return h;
}
inline uint64_t fnv(const std::string &s, uint64_t h = 1469598103934665603ULL) {
  return fnv(s.data(), s.size(), h);
}

// ---------- global state ----------
struct Fail { std::string check, text, why; };
struct CheckStat {
  uint64_t evals = 0, discards = 0;
  std::unordered_set<uint64_t> nontriv;
  std::map<std::string, uint64_t> labels;
  std::map<std::string, uint64_t> excluded;
  std::vector<std::string> samples;      // first few
  std::vector<std::string> nt_samples;   // non-trivial ones (sparse)
  bool failed = false;
  bool exhaustive = false;
};
struct State {
  std::string outdir = ".", variant = "v", only;
  uint64_t seed = 1;
  double scale = 1.0;
  std::set<std::string> known;
  std::map<std::string, CheckStat> stats;
  std::vector<Fail> fails;
  std::string cur_check;
  // current case for crash reporting (fixed buffer: usable from signal handler)
  char cur[1 << 16];
  size_t cur_len = 0;
  CheckStat *cs = nullptr;
  bool in_shrink = false;
  bool replay = false;
};
inline State &st() { static State s; return s; }

inline bool known(const char *pred) { return st().known.count(pred) != 0; }
inline void label(const std::string &l) { if (st().cs) st().cs->labels[l]++; }
inline void excluded(const std::string &pred) { if (st().cs) st().cs->excluded[pred]++; }
inline void nontrivial(uint64_t fp) {
  CheckStat *c = st().cs;
  if (!c) return;
  if (c->nontriv.size() < 4000000) {
    bool fresh = c->nontriv.insert(fp).second;
    if (fresh && c->nt_samples.size() < 6 && st().cur_len &&
        (c->nontriv.size() % 7 == 1 || c->nt_samples.size() < 2))
      c->nt_samples.push_back(std::string(st().cur, std::min<size_t>(st().cur_len, 1500)));
  }
}
inline void nontrivial_cur() { nontrivial(fnv(st().cur, st().cur_len)); }
inline void set_exhaustive(bool e) { if (st().cs) st().cs->exhaustive = e; }

inline void set_cur(const std::string &t) {
  State &s = st();
  s.cur_len = std::min(t.size(), sizeof(s.cur) - 1);
  memcpy(s.cur, t.data(), s.cur_len);
  s.cur[s.cur_len] = 0;
}

// crash: flush the current case so the runner can report it
inline void crash_dump(const char *kind) {
  State &s = st();
  if (s.replay) return;  // a replayed case is already a file
  char path[1024];
  snprintf(path, sizeof path, "%s/%s.%s.crash", s.outdir.c_str(), s.variant.c_str(),
           s.cur_check.empty() ? "none" : s.cur_check.c_str());
  int fd = open(path, O_WRONLY | O_CREAT | O_TRUNC, 0644);
  if (fd < 0) return;
  const char *h1 = "check=";
  (void)!write(fd, h1, strlen(h1));
  (void)!write(fd, s.cur_check.c_str(), s.cur_check.size());
  const char *h2 = "\n#crash=";
  (void)!write(fd, h2, strlen(h2));
  (void)!write(fd, kind, strlen(kind));
  (void)!write(fd, "\n", 1);
  (void)!write(fd, s.cur, s.cur_len);
  close(fd);
}
extern "C" inline void pbt_sig(int sig) {
  crash_dump(sig == SIGSEGV ? "SIGSEGV" : sig == SIGABRT ? "SIGABRT" : sig == SIGBUS ? "SIGBUS"
             : sig == SIGFPE ? "SIGFPE" : sig == SIGILL ? "SIGILL(trap)" : sig == SIGALRM ? "SIGALRM(hang)" : "signal");
  signal(sig, SIG_DFL);
  raise(sig);
}
extern "C" void __sanitizer_set_death_callback(void (*)(void)) __attribute__((weak));
extern "C" inline void pbt_san_death() { crash_dump("sanitizer"); }

// ---------- check registry ----------
struct CheckDef {
  std::string name;
  int base_cases;
  int max_size;
  std::function<bool(int cases, int max_size, uint64_t seed)> run_rc;  // true = passed
  std::function<Verdict(const std::string &)> run_text;
};
inline std::vector<CheckDef> &registry() { static std::vector<CheckDef> r; return r; }
// checks whose failing cases are expensive to re-run (waits with ceilings) can opt out of shrinking
inline std::set<std::string> &no_shrink() { static std::set<std::string> s; return s; }
inline void disable_shrinking(const std::string &name) { no_shrink().insert(name); }

inline std::string json_escape(const std::string &s) {
  std::string o;
  for (unsigned char c : s) {
    switch (c) {
    case '"': o += "\\\""; break;
    case '\\': o += "\\\\"; break;
    case '\n': o += "\\n"; break;
    case '\r': o += "\\r"; break;
    case '\t': o += "\\t"; break;
    default:
      if (c < 0x20 || c >= 0x7f) { char b[8]; snprintf(b, sizeof b, "\\u%04x", c); o += b; }
      else o.push_back((char)c);
    }
  }
  return o;
}

// Case must provide: std::string ser() const; static Case parse(const std::string&)
template <class Case>
void add_check(const std::string &name, int base_cases, int max_size,
               std::function<rc::Gen<Case>()> gen,
               std::function<Verdict(const Case &)> run) {
  CheckDef d;
  d.name = name;
  d.base_cases = base_cases;
  d.max_size = max_size;
  d.run_text = [run](const std::string &t) { return run(Case::parse(t)); };
  d.run_rc = [name, gen, run](int cases, int max_size, uint64_t seed) -> bool {
    State &s = st();
    s.cur_check = name;
    s.cs = &s.stats[name];
    rc::detail::TestParams p;
    p.seed = seed ^ fnv(name);
    p.maxSuccess = cases;
    p.maxSize = max_size;
    p.maxDiscardRatio = 20;
    p.disableShrinking = no_shrink().count(name) != 0;
    rc::detail::TestMetadata md;
    md.id = name;
    md.description = name;
    std::string lastfail_text, lastfail_why;
    // shrinking budget: once a failure is known, candidates are re-run for at most this long; afterwards every
    // candidate counts as passing, which ends the shrink at the smallest failing case found so far. The clock
    // never influences the verdict, only how small the replay file gets (failing cases with ceilings are slow).
    const char *sb_env = getenv("VERIF_SHRINK_BUDGET_S");
    const double shrink_budget_s = sb_env ? atof(sb_env) : 90.0;
    std::chrono::steady_clock::time_point first_fail_at;
    rc::Gen<Case> g = gen();
    auto result = rc::detail::checkTestable(
        [&]() {
          Case c = *g;
          std::string text = c.ser();
          set_cur(text);
          CheckStat *cs = st().cs;
          bool counting = lastfail_text.empty();  // stop counting once shrinking began
          if (counting) {
            cs->evals++;
            if (cs->samples.size() < 3) cs->samples.push_back(text.substr(0, 1500));
          } else {
            st().cs = nullptr;
            if (std::chrono::duration<double>(std::chrono::steady_clock::now() - first_fail_at).count() > shrink_budget_s) { st().cs = cs; return; }
          }
          Verdict v = run(c);
          st().cs = cs;
          if (!v.ok) {
            if (lastfail_text.empty()) first_fail_at = std::chrono::steady_clock::now();
            lastfail_text = text;
            lastfail_why = v.why;
            RC_FAIL(v.why);
          }
        },
        md, p);
    bool ok = result.template is<rc::detail::SuccessResult>();
    if (!ok) {
      rc::detail::printResultMessage(result, std::cerr);
      s.stats[name].failed = true;
      if (lastfail_text.empty()) {
        // gave up / error: not a property failure
        rc::detail::GaveUpResult gu;
        if (result.match(gu)) {
          s.stats[name].failed = false;
          s.stats[name].labels["_gave_up"]++;
          ok = true;
        } else {
          s.fails.push_back(Fail{name, std::string(s.cur, s.cur_len), "rapidcheck error"});
        }
      } else {
        s.fails.push_back(Fail{name, lastfail_text, lastfail_why});
      }
    }
    s.cs = nullptr;
    return ok;
  };
  registry().push_back(d);
}

// Exhaustive / enumerated check (still generated-input search, but by full
// enumeration of a finite space). body() is expected to call pbt::enum_case()
// per case.
struct EnumCtx {
  std::string name;
  bool failed = false;
};
inline EnumCtx *&enum_ctx() { static EnumCtx *c = nullptr; return c; }
// returns false when enumeration should stop (first failure)
inline bool enum_case(const std::string &text, const std::function<Verdict()> &f) {
  State &s = st();
  set_cur(text);
  CheckStat *cs = s.cs;
  cs->evals++;
  if (cs->samples.size() < 3) cs->samples.push_back(text.substr(0, 1500));
  Verdict v = f();
  if (!v.ok) {
    cs->failed = true;
    s.fails.push_back(Fail{s.cur_check, text, v.why});
    return false;
  }
  return true;
}
inline void add_enum_check(const std::string &name, int min_scale_pct,
                           std::function<void(double scale)> body,
                           std::function<Verdict(const std::string &)> run_text) {
  CheckDef d;
  d.name = name;
  d.base_cases = min_scale_pct;
  d.max_size = 0;
  d.run_text = run_text;
  d.run_rc = [name, body](int, int, uint64_t) -> bool {
    State &s = st();
    s.cur_check = name;
    s.cs = &s.stats[name];
    body(s.scale);
    bool ok = !s.cs->failed;
    s.cs = nullptr;
    return ok;
  };
  registry().push_back(d);
}

inline void write_fail_files() {
  State &s = st();
  for (auto &fl : s.fails) {
    std::string p = s.outdir + "/" + s.variant + "." + fl.check + ".fail";
    FILE *g = fopen(p.c_str(), "w");
    if (!g) continue;
    fprintf(g, "check=%s\n#variant=%s\n#why=%s\n%s", fl.check.c_str(), s.variant.c_str(),
            json_escape(fl.why).c_str(), fl.text.c_str());
    fclose(g);
  }
}
inline void write_stats_json() {
  State &s = st();
  std::string path = s.outdir + "/" + s.variant + ".json";
  FILE *f = fopen(path.c_str(), "w");
  if (!f) return;
  fprintf(f, "{\"variant\":\"%s\",\"seed\":%llu,\"checks\":{", json_escape(s.variant).c_str(),
          (unsigned long long)s.seed);
  bool first = true;
  for (auto &kv : s.stats) {
    const CheckStat &c = kv.second;
    fprintf(f, "%s\"%s\":{\"evaluations\":%llu,\"distinct_nontrivial\":%llu,\"failed\":%s,\"exhaustive\":%s,",
            first ? "" : ",", json_escape(kv.first).c_str(), (unsigned long long)c.evals,
            (unsigned long long)c.nontriv.size(), c.failed ? "true" : "false",
            c.exhaustive ? "true" : "false");
    first = false;
    fprintf(f, "\"labels\":{");
    bool f2 = true;
    for (auto &l : c.labels) {
      fprintf(f, "%s\"%s\":%llu", f2 ? "" : ",", json_escape(l.first).c_str(), (unsigned long long)l.second);
      f2 = false;
    }
    fprintf(f, "},\"excluded_by_known_finding\":{");
    f2 = true;
    for (auto &l : c.excluded) {
      fprintf(f, "%s\"%s\":%llu", f2 ? "" : ",", json_escape(l.first).c_str(), (unsigned long long)l.second);
      f2 = false;
    }
    fprintf(f, "},\"samples\":[");
    f2 = true;
    for (auto &x : c.samples) { fprintf(f, "%s\"%s\"", f2 ? "" : ",", json_escape(x).c_str()); f2 = false; }
    for (auto &x : c.nt_samples) { fprintf(f, "%s\"%s\"", f2 ? "" : ",", json_escape(x).c_str()); f2 = false; }
    fprintf(f, "]}");
  }
  fprintf(f, "},\"fails\":[");
  first = true;
  for (auto &fl : s.fails) {
    fprintf(f, "%s{\"check\":\"%s\",\"why\":\"%s\"}", first ? "" : ",", json_escape(fl.check).c_str(),
            json_escape(fl.why).c_str());
    first = false;
  }
  fprintf(f, "]}\n");
  fclose(f);
  write_fail_files();
}

inline int driver_main(int argc, char **argv) {
  State &s = st();
  std::string replay;
  for (int i = 1; i < argc; i++) {
    std::string a = argv[i];
    auto next = [&]() -> std::string { return (i + 1 < argc) ? argv[++i] : ""; };
    if (a == "--out") s.outdir = next();
    else if (a == "--variant") s.variant = next();
    else if (a == "--seed") s.seed = strtoull(next().c_str(), nullptr, 10);
    else if (a == "--scale") s.scale = atof(next().c_str());
    else if (a == "--only") s.only = next();
    else if (a == "--replay") replay = next();
    else if (a == "--list") { for (auto &d : registry()) printf("%s\n", d.name.c_str()); return 0; }
    else if (a == "--known") {
      std::istringstream in(next());
      std::string t;
      while (std::getline(in, t, ',')) if (!t.empty()) s.known.insert(t);
    }
  }
  if (s.seed == 0) s.seed = 1;
  signal(SIGSEGV, pbt_sig);
  signal(SIGABRT, pbt_sig);
  signal(SIGBUS, pbt_sig);
  signal(SIGFPE, pbt_sig);
  signal(SIGILL, pbt_sig);  // clang -fsanitize=bounds traps with ud2
  signal(SIGPIPE, SIG_IGN);  // harness writes to peers that may have been closed by the scenario
  signal(SIGALRM, pbt_sig);
  if (__sanitizer_set_death_callback) __sanitizer_set_death_callback(pbt_san_death);

  if (!replay.empty()) {
    s.replay = true;
    FILE *f = fopen(replay.c_str(), "r");
    if (!f) { fprintf(stderr, "cannot open %s\n", replay.c_str()); return 2; }
    std::string text;
    char buf[4096];
    size_t n;
    while ((n = fread(buf, 1, sizeof buf, f)) > 0) text.append(buf, n);
    fclose(f);
    Reader r(text);
    std::string chk = r.kv.count("check") ? r.kv["check"] : "";
    for (auto &d : registry()) {
      if (d.name != chk) continue;
      s.cur_check = chk;
      CheckStat dummy;
      s.cs = &dummy;
      set_cur(text);
      if (getenv("PBT_REPLAY_ALARM")) alarm((unsigned)atoi(getenv("PBT_REPLAY_ALARM")));
      Verdict v = d.run_text(text);
      if (v.ok) { printf("REPLAY-PASS %s\n", chk.c_str()); return 0; }
      printf("REPLAY-FAIL %s: %s\n", chk.c_str(), v.why.c_str());
      return 1;
    }
    fprintf(stderr, "unknown check '%s' in %s\n", chk.c_str(), replay.c_str());
    return 2;
  }

  bool all_ok = true;
  for (auto &d : registry()) {
    if (!s.only.empty() && s.only != d.name) continue;
    int cases = (int)std::max(1.0, d.base_cases * s.scale);
    auto t0 = std::chrono::steady_clock::now();
    bool ok = d.run_rc(cases, d.max_size, s.seed);
    double dt = std::chrono::duration<double>(std::chrono::steady_clock::now() - t0).count();
    fprintf(stderr, "[%s/%s] %s evals=%llu nontrivial=%llu %.1fs\n", s.variant.c_str(), d.name.c_str(),
            ok ? "ok" : "FAIL", (unsigned long long)s.stats[d.name].evals,
            (unsigned long long)s.stats[d.name].nontriv.size(), dt);
    all_ok = all_ok && ok;
    if (!ok) write_fail_files();
    write_stats_json();
  }
  write_stats_json();
  return all_ok ? 0 : 1;
}

// ---------- small generator helpers ----------
// inRange collapses at small sizes; always wrap in resize (session note).
template <class T> rc::Gen<T> range(T lo, T hi_incl) {
  return rc::gen::resize(100, rc::gen::inRange<T>(lo, (T)(hi_incl + 1)));
}
inline rc::Gen<Bytes> bytes_len(size_t n) {
  return rc::gen::container<Bytes>(n, rc::gen::resize(100, rc::gen::arbitrary<uint8_t>()));
}
inline rc::Gen<Bytes> bytes_upto(size_t maxn) {
  return rc::gen::mapcat(range<size_t>(0, maxn), [](size_t n) { return bytes_len(n); });
}

}  // namespace pbt
