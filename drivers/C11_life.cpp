// C11 -- pool life cycle: documented return codes, hooks exactly once per thread,
// no callback after destroy, every descriptor / thread / allocation released,
// failed creation leaves nothing behind. Histories + schedule plan + resource-fault plan.
#include "pbt.hpp"
#include "../shims/tp_abi.h"
#include <cerrno>

using namespace pbt;

struct Fault { int fn = 0, k = 0, err = 0; };
struct LifeCase {
  int nthreads = 1, flags = 0, skip_first = 0, attach_first = 0, nmsgs = 0, msg_pvt = 0, timer = 0, pipe_ev = 0, wait_early = 0,
      shutdown_mode = 0, late_calls = 0, wait_mode = 1, destroy_in_pool_first = 0, slow_stop = 0, free_fd0 = 0, hooks_mode = 0, detach_thread = 0;
  Bytes plan;
  std::vector<Fault> faults;
  std::string ser() const {
    Writer w;
    w.i("nthreads", nthreads).i("flags", flags).i("skip_first", skip_first).i("attach_first", attach_first).i("nmsgs", nmsgs)
        .i("msg_pvt", msg_pvt).i("timer", timer).i("pipe_ev", pipe_ev).i("wait_early", wait_early).i("shutdown_mode", shutdown_mode)
        .i("late_calls", late_calls).i("wait_mode", wait_mode).i("destroy_in_pool_first", destroy_in_pool_first).i("slow_stop", slow_stop).i("free_fd0", free_fd0).i("hooks_mode", hooks_mode).i("detach_thread", detach_thread);
    w.b("plan", plan);
    std::vector<long long> f;
    for (auto &x : faults) { f.push_back(x.fn); f.push_back(x.k); f.push_back(x.err); }
    w.iv("faults", f);
    return w.str();
  }
  static LifeCase parse(const std::string &t) {
    Reader r(t);
    LifeCase c;
    c.nthreads = (int)r.i("nthreads", 1); c.flags = (int)r.i("flags"); c.skip_first = (int)r.i("skip_first"); c.attach_first = (int)r.i("attach_first");
    c.nmsgs = (int)r.i("nmsgs"); c.msg_pvt = (int)r.i("msg_pvt"); c.timer = (int)r.i("timer"); c.pipe_ev = (int)r.i("pipe_ev");
    c.wait_early = (int)r.i("wait_early"); c.shutdown_mode = (int)r.i("shutdown_mode"); c.late_calls = (int)r.i("late_calls");
    c.wait_mode = (int)r.i("wait_mode", 1); c.destroy_in_pool_first = (int)r.i("destroy_in_pool_first"); c.slow_stop = (int)r.i("slow_stop"); c.free_fd0 = (int)r.i("free_fd0"); c.hooks_mode = (int)r.i("hooks_mode"); c.detach_thread = (int)r.i("detach_thread");
    c.plan = r.b("plan");
    auto f = r.iv("faults");
    for (size_t j = 0; j + 3 <= f.size(); j += 3) c.faults.push_back(Fault{(int)f[j], (int)f[j + 1], (int)f[j + 2]});
    return c;
  }
};
void showValue(const LifeCase &c, std::ostream &os) { os << c.ser(); }

static c11_out g_last;

static Verdict evaluate(const LifeCase &c, const c11_out &o) {
  PBT_REQUIRE(tp_log_dropped() == 0, "harness: history log overflow");
  PBT_REQUIRE(o.res_before.live_allocs == 0 && o.res_before.live_fds == 0 && o.res_before.unjoined_threads == 0, "harness: resources left from a previous case");
  uint32_t n = tp_log_count();
  uint32_t injected = 0;
  for (int f = 0; f < F_LAST; f++) injected += o.res.injected[f];
  if (o.create_rc != 0) {
    // a failing tp_create is acceptable only when a resource fault was injected; it must leave nothing behind
    PBT_REQUIRE(injected > 0, "tp_create failed with " << o.create_rc << " without an injected fault");
    PBT_REQUIRE(o.tp_ptr_after_failed_create == 0x5e5e5e5e5e5eull, "failed tp_create modified *ptp");
    PBT_REQUIRE(o.res.live_fds == 0, "failed tp_create left " << o.res.live_fds << " descriptor(s) open");
    PBT_REQUIRE(o.res.live_allocs == 0, "failed tp_create leaked " << o.res.live_allocs << " allocation(s)");
    PBT_REQUIRE(o.res.unjoined_threads == 0, "failed tp_create left threads");
    PBT_REQUIRE(o.res.double_free == 0 && o.res.close_unknown == 0, "failed tp_create freed/closed something twice (double_free=" << o.res.double_free
                                                                                                                                 << " close_unknown=" << o.res.close_unknown << ")");
    {
      // hooks exactly once per thread, also on this path: whatever start hook ran before the failure (the virtual
      // thread's runs inside tp_create) must have been balanced by its stop hook when tp_create returned
      std::map<uint64_t, int> st, sp;
      for (uint32_t i = 0; i < n; i++) {
        const tp_rec &r = tp_log_buf[i];
        if (r.kind == R_HOOK_START) st[r.a]++;
        if (r.kind == R_HOOK_STOP) sp[r.a]++;
      }
      for (auto &kv : st) {
        PBT_REQUIRE(kv.second == 1, "failed tp_create ran the start hook " << kv.second << " times for one thread");
        if (c.hooks_mode == 0) PBT_REQUIRE(sp[kv.first] == 1, "failed tp_create ran the start hook of thread object " << std::hex << kv.first << std::dec << " but its stop hook " << sp[kv.first]
                                                                                                 << " times (thread-local user state set up by the start hook is never torn down)");
      }
      // hooks come in pairs: a thread object whose start hook never ran (its own set-up failed, or the creation failed before it was
      // started) must not be handed to the stop hook, which tears down what the start hook built
      for (auto &kv : sp) {
        PBT_REQUIRE(kv.second == 1, "failed tp_create ran the stop hook " << kv.second << " times for one thread");
        if (c.hooks_mode == 0) PBT_REQUIRE(st.count(kv.first), "failed tp_create ran the stop hook of thread object " << std::hex << kv.first << std::dec << " whose start hook never ran");
      }
      if (!st.empty()) label("create_failed_after_start_hook");
    }
    label("create_failed_cleanly");
    nontrivial_cur();
    return Verdict::pass();
  }
  PBT_REQUIRE(!o.hang, "hang: an in-pool step did not complete within the ceiling");
  // return codes
  std::map<int, std::vector<long long>> rcs;
  long destroy_ret = -1;
  for (uint32_t i = 0; i < n; i++) {
    const tp_rec &r = tp_log_buf[i];
    if (r.kind == R_API_RET) { rcs[(int)r.b].push_back((long long)(int64_t)r.c); if (r.b == A_DESTROY) destroy_ret = i; }
  }
  auto all_eq = [&](int api, long long v) { for (long long x : rcs[api]) if (x != v) return false; return true; };
  PBT_REQUIRE(all_eq(A_THREADS_CREATE, 0), "tp_threads_create returned " << rcs[A_THREADS_CREATE][0]);
  PBT_REQUIRE(all_eq(A_WAIT_EARLY, EBUSY), "tp_shutdown_wait before tp_shutdown returned " << (rcs[A_WAIT_EARLY].empty() ? 0 : rcs[A_WAIT_EARLY][0]) << " (EBUSY documented)");
  PBT_REQUIRE(all_eq(A_TCREATE_LATE, EBUSY), "tp_threads_create after shutdown did not return EBUSY");
  PBT_REQUIRE(all_eq(A_ATTACH_LATE, EBUSY), "tp_thread_attach_first after shutdown did not return EBUSY");
  PBT_REQUIRE(all_eq(A_WAIT_IN_POOL, EDEADLK), "tp_shutdown_wait from a pool thread did not return EDEADLK");
  PBT_REQUIRE(all_eq(A_DESTROY_IN_POOL, EDEADLK), "tp_destroy from a pool thread did not return EDEADLK");
  PBT_REQUIRE(all_eq(A_DETACH_SELF, 0), "tp_thread_dettach() of a running worker on itself returned non-zero");
  PBT_REQUIRE(all_eq(A_WAIT_ATTACHED, 0), "tp_shutdown_wait called by the formerly attached thread after tp_thread_attach_first() had returned did not return 0 (it is no pool thread any more)");
  PBT_REQUIRE(!o.attached_still_pool_thread, "after tp_thread_attach_first() returned, the calling thread is still marked as a pool thread (tpt_get_current() != NULL): its own tp_shutdown_wait / tp_destroy would be refused with EDEADLK");
  PBT_REQUIRE(all_eq(A_SHUTDOWN_WAIT, 0), "tp_shutdown_wait from outside returned non-zero");
  PBT_REQUIRE(all_eq(A_ATTACH_FIRST, 0), "tp_thread_attach_first returned non-zero");
  PBT_REQUIRE(rcs[A_DESTROY].size() == 1 && rcs[A_DESTROY][0] == 0, "tp_destroy from outside returned " << (rcs[A_DESTROY].empty() ? -1 : rcs[A_DESTROY][0]));
  // hooks
  std::map<uint64_t, int> starts, stops;
  long last_hook = -1, late_record = -1;
  for (uint32_t i = 0; i < n; i++) {
    const tp_rec &r = tp_log_buf[i];
    if (r.kind == R_HOOK_START) starts[r.a]++;
    if (r.kind == R_HOOK_STOP) stops[r.a]++;
    if (r.kind == R_HOOK_START || r.kind == R_HOOK_STOP) last_hook = i;
    if ((long)i > destroy_ret && destroy_ret >= 0 && (r.kind == R_HOOK_START || r.kind == R_HOOK_STOP || r.kind == R_CB || r.kind == R_EV_CB)) late_record = i;
  }
  (void)last_hook;
  for (auto &kv : starts) PBT_REQUIRE(kv.second == 1, "start hook ran " << kv.second << " times for one thread");
  for (auto &kv : stops) {
    bool pvt = kv.first == o.tpt_ptr[16];
    if (kv.second > 1 && pvt && c.shutdown_mode == 2 && known("concurrent_shutdown_double_pvt_stop_hook")) { excluded("concurrent_shutdown_double_pvt_stop_hook"); continue; }
    if (kv.second != 1) {
      std::ostringstream d;
      for (uint32_t i = 0; i < n; i++) {
        const tp_rec &r = tp_log_buf[i];
        if (r.kind == R_HOOK_STOP && r.a == kv.first) d << " [stop@" << i << " thr" << r.thr << "]";
        if (r.kind == R_API_CALL || r.kind == R_API_RET) d << " [" << (r.kind == R_API_CALL ? "call" : "ret") << r.b << "@" << i << " thr" << r.thr << "]";
      }
      PBT_REQUIRE(kv.second == 1, "stop hook ran " << kv.second << " times for " << (pvt ? "the virtual thread" : "one thread") << d.str());
    }
  }
  const bool has_start = (c.hooks_mode == 0 || c.hooks_mode == 1), has_stop = (c.hooks_mode == 0 || c.hooks_mode == 2);
  if (has_start && has_stop) {
    for (auto &kv : starts) PBT_REQUIRE(stops.count(kv.first), "a thread ran its start hook but never its stop hook (history ended with a successful destroy)");
    for (auto &kv : stops) PBT_REQUIRE(starts.count(kv.first), "a thread ran its stop hook without a start hook");
  }
  if (!has_start) PBT_REQUIRE(starts.empty(), "a start hook ran although none was installed");
  if (!has_stop) PBT_REQUIRE(stops.empty(), "a stop hook ran although none was installed");
  if (has_start) PBT_REQUIRE(starts.count(o.tpt_ptr[16]) == 1, "virtual thread start hook missing");
  if (has_stop) PBT_REQUIRE(stops.count(o.tpt_ptr[16]) == 1, "virtual thread stop hook missing (installed hook: " << (has_start ? "both" : "stop only") << ")");
  // every worker that was seen running before the shutdown step ran each installed hook (exactly once: counts checked above)
  for (int t = 0; t < c.nthreads; t++) {
    if (!((o.ran_mask >> t) & 1)) continue;
    if (has_start) PBT_REQUIRE(starts.count(o.tpt_ptr[t]) == 1, "thread " << t << " ran but its start hook did not");
    if (has_stop) PBT_REQUIRE(stops.count(o.tpt_ptr[t]) == 1, "thread " << t << " ran but its stop hook did not (installed hook: " << (has_start ? "both" : "stop only") << ")");
  }
  if (c.hooks_mode) label(c.hooks_mode == 1 ? "only_start_hook_installed" : c.hooks_mode == 2 ? "only_stop_hook_installed" : "no_hooks_installed");
  // nothing after destroy returned
  PBT_REQUIRE(late_record < 0, "a hook or callback ran after tp_destroy() returned (log index " << late_record << " > " << destroy_ret << ")");
  PBT_REQUIRE(o.cb_after_destroy == 0, o.cb_after_destroy << " callback(s) ran after tp_destroy() returned");
  // resources
  if (o.res.unjoined_threads && known("worker_threads_not_joined")) excluded("worker_threads_not_joined");
  else PBT_REQUIRE(o.res.unjoined_threads == 0, o.res.unjoined_threads << " of " << o.res.total_threads << " worker thread(s) were never joined by tp_shutdown_wait/tp_destroy");
  PBT_REQUIRE(o.res.live_fds == 0, o.res.live_fds << " descriptor(s) acquired by the pool are still open after tp_destroy");
  PBT_REQUIRE(o.res.live_allocs == 0, o.res.live_allocs << " allocation(s) made by the pool were never freed");
  PBT_REQUIRE(o.res.double_free == 0, "the pool freed a pointer twice");
  PBT_REQUIRE(o.res.bad_joins == 0, o.res.bad_joins << " pthread_join() call(s) on a thread that another caller had already joined (or that was never created): two waiters claimed the same worker");
  PBT_REQUIRE(o.res.close_unknown == 0, "the pool closed a descriptor it does not own (or closed one twice): " << o.res.close_unknown);
  bool nt = false;
  if (c.shutdown_mode == 1) { label("shutdown_from_pool_thread"); nt = true; }
  if (c.shutdown_mode == 2 || c.wait_mode == 3) { label("concurrent_shutdown_or_wait"); nt = true; }
  if (c.shutdown_mode == 4) label("destroy_without_shutdown");
  if (c.nmsgs || c.timer || c.pipe_ev) { label("in_flight_work"); nt = true; }
  if (injected) { label("fault_injected_after_create"); nt = true; }
  if (c.attach_first && c.skip_first) label("attach_first");
  if (c.attach_first && c.skip_first && c.wait_mode == 4) label("attached_thread_waits_itself");
  if (o.fd0_was_freed) label("pool_created_with_descriptor_0_free");
  if (!rcs[A_DETACH_SELF].empty()) { label("worker_detached_itself"); nt = true; }
  for (int p : {10, 11, 12, 13, 14, 15, 16}) if (o.res.vp_hits[p]) label("vp" + std::to_string(p) + "_hit");
  if (nt) nontrivial_cur();
  return Verdict::pass();
}

static void to_scn(const LifeCase &c, c11_scn &s) {
  memset(&s, 0, sizeof s);
  s.nthreads = (uint8_t)std::max(1, std::min(16, c.nthreads));
  s.flags = (uint8_t)c.flags; s.skip_first = (uint8_t)c.skip_first; s.attach_first = (uint8_t)c.attach_first;
  s.nmsgs = (uint8_t)std::min(200, c.nmsgs); s.msg_pvt = (uint8_t)c.msg_pvt; s.timer = (uint8_t)c.timer; s.pipe_ev = (uint8_t)c.pipe_ev;
  s.wait_early = (uint8_t)c.wait_early; s.shutdown_mode = (uint8_t)c.shutdown_mode; s.late_calls = (uint8_t)c.late_calls;
  s.wait_mode = (uint8_t)c.wait_mode; s.destroy_in_pool_first = (uint8_t)c.destroy_in_pool_first; s.slow_stop = (uint8_t)c.slow_stop; s.free_fd0 = (uint8_t)c.free_fd0; s.hooks_mode = (uint8_t)c.hooks_mode; s.detach_thread = (uint8_t)c.detach_thread;
  s.plans.plan_len = (uint32_t)std::min<size_t>(c.plan.size(), TP_PLAN_MAX);
  memcpy(s.plans.plan, c.plan.data(), s.plans.plan_len);
  s.plans.nfaults = (uint32_t)std::min<size_t>(c.faults.size(), TP_FAULT_MAX);
  for (uint32_t i = 0; i < s.plans.nfaults; i++) {
    s.plans.faults[i].fn = (uint8_t)c.faults[i].fn; s.plans.faults[i].k = (uint32_t)c.faults[i].k; s.plans.faults[i].err = c.faults[i].err;
  }
}

static Verdict run_case(const LifeCase &c) {
  c11_scn s;
  to_scn(c, s);
  alarm(180);  // a life-cycle call that never returns is reported by the SIGALRM crash handler (re-run by the replay tier)
  c11_run(&s, &g_last);
  alarm(0);
  return evaluate(c, g_last);
}

static rc::Gen<LifeCase> genCase() {
  return rc::gen::exec([]() {
    LifeCase c;
    c.nthreads = *rc::gen::element(1, 2, 2, 3, 4, 8, 16);
    c.flags = *range<int>(0, 3);
    c.skip_first = *rc::gen::weightedElement<int>({{2, 0}, {1, 1}});
    c.attach_first = c.skip_first ? *rc::gen::weightedElement<int>({{1, 0}, {2, 1}}) : 0;
    // a thread whose stop hook takes a moment: preferably the attached one (it cannot be joined, only waited for)
    c.slow_stop = *rc::gen::weightedElement<int>({{3, 0}, {2, c.attach_first ? 1 : 1 + *range<int>(0, c.nthreads - 1)}, {1, 1 + *range<int>(0, c.nthreads - 1)}});
    c.nmsgs = *rc::gen::weightedElement<int>({{2, 0}, {3, *range<int>(1, 40)}});
    c.msg_pvt = *range<int>(0, 1);
    if (c.skip_first && !c.attach_first && c.nthreads == 1) c.msg_pvt = 0;
    c.timer = *range<int>(0, 1);
    c.pipe_ev = *range<int>(0, 1);
    c.wait_early = *rc::gen::weightedElement<int>({{4, 0}, {1, 1}});
    c.shutdown_mode = *rc::gen::weightedElement<int>({{4, 0}, {3, 1}, {2, 2}, {1, 3}, {2, 4}});
    c.late_calls = *rc::gen::weightedElement<int>({{4, 0}, {1, 1}, {1, 2}, {1, 3}});
    c.wait_mode = *rc::gen::weightedElement<int>({{2, 0}, {4, 1}, {2, 2}, {2, 3}});
    c.destroy_in_pool_first = *rc::gen::weightedElement<int>({{5, 0}, {1, 1}});
    if (c.attach_first && *range<int>(0, 2) == 0) c.wait_mode = 4;  // the attached thread waits by itself after it left the loop
    c.free_fd0 = *rc::gen::weightedElement<int>({{4, 0}, {1, 1}});
    if (*range<int>(0, 4) == 0) {  // one created worker detaches itself; make it the one with the slow stop hook half of the time
      int lo = c.skip_first ? 1 : 0;
      if (lo <= c.nthreads - 1) { c.detach_thread = 1 + *range<int>(lo, c.nthreads - 1); if (*range<int>(0, 1)) c.slow_stop = c.detach_thread; }
    }
    c.hooks_mode = *rc::gen::weightedElement<int>({{4, 0}, {1, 1}, {2, 2}, {1, 3}});  // which hooks the settings install    // descriptor 0 is free while the pool is created (closed stdin)
    c.plan = *bytes_upto(24);
    int nf = *rc::gen::weightedElement<int>({{5, 0}, {2, 1}, {1, 2}});
    for (int i = 0; i < nf; i++) {
      Fault f;
      f.fn = *rc::gen::element<int>(F_CALLOC, F_EPOLL_CREATE, F_PIPE2, F_EPOLL_CTL, F_PTHREAD_CREATE, F_PTHREAD_CREATE);
      f.k = *range<int>(1, 2 * c.nthreads + 4);
      f.err = f.fn == F_CALLOC ? ENOMEM : f.fn == F_PTHREAD_CREATE ? *rc::gen::element<int>(ENOMEM, EPERM) : *rc::gen::element<int>(EMFILE, ENFILE, ENOMEM);
      c.faults.push_back(f);
    }
    return c;
  });
}

// fault enumeration: for a few fixed histories, fail the k-th call of every resource function for every k observed in a fault-free run
static void fault_sweep(double scale) {
  set_exhaustive(true);
  std::vector<int> sizes = scale >= 4 ? std::vector<int>{1, 2, 3, 4, 8} : std::vector<int>{1, 3};
  for (int n : sizes) {
    LifeCase base;
    base.nthreads = n;
    base.nmsgs = 4;
    base.msg_pvt = 1;
    base.flags = 2;
    // fault-free run to learn how often each function is called
    c11_scn s;
    to_scn(base, s);
    alarm(180);
    c11_run(&s, &g_last);
    alarm(0);
    tp_res_stats ref = g_last.res;
    if (!enum_case(base.ser(), [&]() { return evaluate(base, g_last); })) return;
    int fns[] = {F_CALLOC, F_EPOLL_CREATE, F_PIPE2, F_EPOLL_CTL, F_PTHREAD_CREATE};
    for (int fn : fns) {
      for (uint32_t k = 1; k <= ref.calls[fn]; k++) {
        LifeCase c = base;
        c.faults.push_back(Fault{fn, (int)k, fn == F_CALLOC ? ENOMEM : fn == F_PTHREAD_CREATE ? ENOMEM : EMFILE});
        if (!enum_case(c.ser(), [&]() { return run_case(c); })) return;
      }
    }
  }
}

int main(int argc, char **argv) {
  add_check<LifeCase>("life_histories", 1200, 100, genCase, run_case);
  add_enum_check("life_fault_sweep", 100, fault_sweep, [](const std::string &t) { return run_case(LifeCase::parse(t)); });
  return driver_main(argc, argv);
}
