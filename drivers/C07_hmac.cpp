// C07 -- HMAC over MD5 / SHA-1 / SHA-2 / GOST R 34.11-2012 equals RFC 2104 for every key length,
// message and chunking; keyed pads (and the inner context) wiped after hmac_*_final; the context
// object can be used again. Oracles (C04_hashref.inc): an RFC 2104 construction written in the
// driver over the reference hash, libgcrypt GCRY_MD_FLAG_HMAC, OpenSSL HMAC() for six algorithms;
// they must agree with each other before the library is compared.
// Links against one shims/hash.c variant (same matrix as C04).
#include "pbt.hpp"
#include "../shims/hash_abi.h"
#include "C04_hashref.inc"

using namespace pbt;
using namespace href;

struct MCase {
  int alg = 0, impl = 0, entry = 0, bits_form = 0, nosize = 0;
  int kkind = K_RANDOM;
  uint32_t klen = 0;
  uint64_t kseed = 0;
  Bytes kdata;
  int key_align = 0, key_null = 0;
  int kind = K_RANDOM;
  uint32_t len = 0;
  uint64_t seed = 0;
  Bytes data;
  int align = 0, out_align = 0, isolate = 0, null_empty = 0, junk = 0xA5;
  uint32_t rep = 1;
  std::vector<long long> splits;
  int pre = 0, pre_alg = 0;
  uint32_t pre_klen = 0, pre_len = 0;

  std::string ser() const {
    Writer w;
    w.i("alg", alg).i("impl", impl).i("entry", entry).i("bits_form", bits_form).i("nosize", nosize);
    w.i("kkind", kkind).u("klen", klen).u("kseed", kseed).b("kdata", kdata).i("key_align", key_align).i("key_null", key_null);
    w.i("kind", kind).u("len", len).u("seed", seed).b("data", data);
    w.i("align", align).i("out_align", out_align).i("isolate", isolate).i("null_empty", null_empty);
    w.i("junk", junk).u("rep", rep).iv("splits", splits);
    w.i("pre", pre).i("pre_alg", pre_alg).u("pre_klen", pre_klen).u("pre_len", pre_len);
    return w.str();
  }
  static MCase parse(const std::string &t) {
    Reader r(t);
    MCase c;
    c.alg = (int)r.i("alg"); c.impl = (int)r.i("impl"); c.entry = (int)r.i("entry");
    c.bits_form = (int)r.i("bits_form"); c.nosize = (int)r.i("nosize");
    c.kkind = (int)r.i("kkind", K_RANDOM); c.klen = (uint32_t)r.u("klen"); c.kseed = r.u("kseed"); c.kdata = r.b("kdata");
    c.key_align = (int)r.i("key_align"); c.key_null = (int)r.i("key_null");
    c.kind = (int)r.i("kind", K_RANDOM); c.len = (uint32_t)r.u("len"); c.seed = r.u("seed"); c.data = r.b("data");
    c.align = (int)r.i("align"); c.out_align = (int)r.i("out_align"); c.isolate = (int)r.i("isolate");
    c.null_empty = (int)r.i("null_empty"); c.junk = (int)r.i("junk", 0xA5);
    c.rep = (uint32_t)r.u("rep", 1); c.splits = r.iv("splits");
    c.pre = (int)r.i("pre"); c.pre_alg = (int)r.i("pre_alg"); c.pre_klen = (uint32_t)r.u("pre_klen"); c.pre_len = (uint32_t)r.u("pre_len");
    return c;
  }
};
void showValue(const MCase &c, std::ostream &os) { os << c.ser(); }

static std::vector<int> impls_of(int alg) {
  std::vector<int> v;
  unsigned m = sh_impls(alg);
  for (int i = 0; i < SH_IMPL_COUNT; i++)
    if (m & (1u << i)) v.push_back(i);
  return v;
}
static int family(int alg) { return alg <= SH_SHA1 ? alg : alg <= SH_SHA512 ? 2 : 3; }

// key content: besides the message kinds, keys made of the pad bytes (K ^ ipad or K ^ opad = 0)
static const int KK_36 = K_KINDS, KK_5C = K_KINDS + 1;
static Bytes expand_key(int kkind, size_t len, uint64_t seed, const Bytes &explicit_data) {
  if (kkind == KK_36) return Bytes(len, 0x36);
  if (kkind == KK_5C) return Bytes(len, 0x5c);
  return expand(kkind, len, seed, explicit_data);
}

static uint32_t genKeyLen(uint32_t B, uint32_t Hs) {
  int k = *range<int>(0, 99);
  if (k < 55) {
    const uint32_t pts[] = {0, 1, Hs, B - 1, B, B + 1, 2 * B, 3 * B};
    return pts[*range<int>(0, 7)];
  }
  if (k < 65) {
    const uint32_t pts[] = {Hs - 1, Hs + 1, 2 * B - 1, 2 * B + 1, 3 * B - 1, B + Hs, B / 2};
    return pts[*range<int>(0, 6)];
  }
  return *range<uint32_t>(0, 3 * B);
}

static rc::Gen<MCase> genCase() {
  return rc::gen::exec([]() {
    MCase c;
    c.alg = *range<int>(0, SH_ALG_COUNT - 1);
    uint32_t B = (uint32_t)ALG[c.alg].block, Hs = (uint32_t)ALG[c.alg].hash;
    int e = *range<int>(0, 9);
    c.entry = e < 6 ? SH_EP_STREAM : e < 7 ? SH_EP_ONESHOT : e < 9 ? SH_EP_ONESHOT2 : SH_EP_HEXSTR;
    if (c.entry == SH_EP_STREAM) {
      std::vector<int> im = impls_of(c.alg);
      c.impl = im[*range<size_t>(0, im.size() - 1)];
    }
    c.bits_form = *range<int>(0, 3) == 0;
    c.nosize = *range<int>(0, 5) == 0;
    c.klen = genKeyLen(B, Hs);
    int kk = *range<int>(0, 11);
    c.kkind = kk < 6 ? K_RANDOM : kk < 7 ? K_ZERO : kk < 8 ? K_FF : kk < 9 ? KK_36 : kk < 10 ? KK_5C : kk < 11 ? K_COUNTER : K_EXPLICIT;
    if (c.kkind == K_EXPLICIT) c.kdata = *bytes_len(c.klen);
    else c.kseed = *range<uint64_t>(0, 1000000);
    c.key_align = *range<int>(0, 2) == 0 ? 0 : *range<int>(0, 63);
    c.key_null = *range<int>(0, 1);
    c.len = genLen(B, 4096);
    int k = *range<int>(0, 13);
    c.kind = k < 7 ? K_RANDOM : k < 8 ? K_ZERO : k < 10 ? K_FF : k < 11 ? K_BLOCKMIX : k < 12 ? K_WORDMIX : k < 13 ? K_COUNTER : K_EXPLICIT;
    if (c.kind == K_EXPLICIT) {
      c.len = std::min<uint32_t>(c.len, 4 * B + 1);
      c.data = *bytes_len(c.len);
    } else {
      c.seed = *range<uint64_t>(0, 1000000);
    }
    c.align = *range<int>(0, 3) == 0 ? 0 : *range<int>(0, 63);
    c.out_align = *range<int>(0, 2) ? 0 : *range<int>(0, 15);
    int j = *range<int>(0, 3);
    c.junk = j == 0 ? 0x00 : j == 1 ? 0xff : j == 2 ? 0xA5 : *range<int>(0, 255);
    c.null_empty = *range<int>(0, 1);
    if (c.entry == SH_EP_STREAM) {
      c.splits = genSplits(c.len, B);
      c.isolate = *range<int>(0, 4) == 0;
      if (c.len <= 1024 && *range<int>(0, 15) == 0) c.rep = *range<uint32_t>(2, 40);
      if (*range<int>(0, 2) == 0) {
        c.pre = 1;
        int f = family(c.alg);
        c.pre_alg = f == 2 ? *range<int>(SH_SHA224, SH_SHA512) : f == 3 ? *range<int>(SH_GOST256, SH_GOST512) : c.alg;
        c.pre_klen = genKeyLen((uint32_t)ALG[c.pre_alg].block, (uint32_t)ALG[c.pre_alg].hash);
        c.pre_len = *range<uint32_t>(0, 300);
      }
    }
    return c;
  });
}

static Verdict exec_one(void *h, int alg, int impl, int entry, const MCase &c, const Bytes &key, const Bytes &msg,
                        const std::vector<uint32_t> &splits, uint32_t rep, sh_res &rs, const char *what) {
  sh_req rq;
  memset(&rq, 0, sizeof rq);
  rq.alg = alg; rq.hmac = 1; rq.impl = impl; rq.entry = entry; rq.bits_form = c.bits_form; rq.nosize = c.nosize;
  rq.key = key.data(); rq.key_len = (uint32_t)key.size(); rq.key_align = (uint32_t)c.key_align; rq.key_null = c.key_null;
  rq.msg = msg.data(); rq.msg_len = (uint32_t)msg.size(); rq.msg_align = (uint32_t)c.align;
  rq.rep = rep; rq.splits = splits.data(); rq.nsplits = (uint32_t)splits.size();
  rq.isolate = c.isolate; rq.null_empty = c.null_empty; rq.clone_at = -1; rq.out_align = (uint32_t)c.out_align;
  sh_run(entry == SH_EP_STREAM ? h : nullptr, &rq, &rs);
  PBT_REQUIRE(rs.rc == 0, what << ": shim rejected the request (rc=" << rs.rc << ")");
  size_t hs = ALG[alg].hash;
  Bytes ref = ref_hmac(alg, key, msg.data(), msg.size(), entry == SH_EP_STREAM ? rep : 1);
  PBT_REQUIRE(rs.guard_ok, what << ": bytes after the output buffer were written");
  if (entry == SH_EP_HEXSTR) {
    PBT_REQUIRE(rs.hex_nul_ok, what << ": MAC string not NUL terminated at 2*hash_size");
    PBT_REQUIRE(std::string(rs.hex) == hex(ref), what << ": hmac-" << ALG[alg].name << " klen=" << key.size() << " len=" << msg.size() << " string " << rs.hex
                                                      << " != lower-case hex of RFC 2104 value " << hex(ref));
    if (rs.size_ret != 0xffffffffu) PBT_REQUIRE(rs.size_ret == 2 * hs, what << ": digest_str_size " << rs.size_ret << " != " << 2 * hs);
  } else {
    Bytes got(rs.digest, rs.digest + hs);
    PBT_REQUIRE(got == ref, what << ": hmac-" << ALG[alg].name << "/" << IMPL_NAME[impl] << "/" << EP_NAME[entry] << " klen=" << key.size() << " len=" << msg.size()
                                 << " rep=" << rep << " MAC " << hex(got) << " != RFC 2104 value " << hex(ref));
    if (rs.size_ret != 0xffffffffu) PBT_REQUIRE(rs.size_ret == hs, what << ": digest_size " << rs.size_ret << " != " << hs);
  }
  if (entry == SH_EP_STREAM) {
    PBT_REQUIRE(rs.opad_nz < 0, what << ": k_opad byte " << rs.opad_nz << " is not zero after hmac_" << ALG[alg].name << " final");
    PBT_REQUIRE(rs.ctx_nz < 0, what << ": inner context byte " << rs.ctx_nz << " of " << rs.ctx_size << " is not zero after hmac final");
  }
  return Verdict::pass();
}

static Verdict run_case(const MCase &c) {
  PBT_REQUIRE(c.alg >= 0 && c.alg < SH_ALG_COUNT && c.impl >= 0 && c.impl < SH_IMPL_COUNT, "malformed case");
  if (!(sh_impls(c.alg) & (1u << c.impl))) {
    label("skipped:impl-not-in-variant");
    return Verdict::pass();
  }
  uint32_t B = (uint32_t)ALG[c.alg].block;
  Bytes key = expand_key(c.kkind, c.klen, c.kseed, c.kdata);
  Bytes msg = expand(c.kind, c.len, c.seed, c.data);
  std::vector<uint32_t> sp;
  uint64_t tot = 0;
  for (long long v : c.splits) { sp.push_back((uint32_t)v); tot += (uint32_t)v; }
  if (c.entry == SH_EP_STREAM) PBT_REQUIRE(tot == msg.size(), "malformed case: splits do not sum to len");
  int impl = c.entry == SH_EP_STREAM ? c.impl : SH_IMPL_DEFAULT;
  uint32_t rep = c.entry == SH_EP_STREAM && c.rep ? c.rep : 1;

  void *h = c.entry == SH_EP_STREAM ? sh_ctx_alloc(c.alg, 1, c.junk) : nullptr;
  struct Guard { void *h; ~Guard() { sh_ctx_free(h); } } guard{h};
  sh_res rs;
  bool reused = false;
  if (c.entry == SH_EP_STREAM && c.pre && family(c.pre_alg) == family(c.alg)) {
    // init; ...; final; init(other key); ...; final on the same object
    Bytes pk = expand(K_RANDOM, c.pre_klen, c.seed + 99, Bytes());
    Bytes pm = expand(K_RANDOM, c.pre_len, c.seed + 77, Bytes());
    std::vector<uint32_t> one{(uint32_t)pm.size()};
    MCase pc = c;
    pc.isolate = 0;
    Verdict v = exec_one(h, c.pre_alg, SH_IMPL_DEFAULT, SH_EP_STREAM, pc, pk, pm, one, 1, rs, "first use of the context");
    if (!v.ok) return v;
    reused = true;
  }
  Verdict v = exec_one(h, c.alg, impl, c.entry, c, key, msg, sp, rep, rs, reused ? "second use of the context" : "run");
  if (!v.ok) return v;

  // ---- labels and the non-trivial rule (DESIGN 4 C07) ----
  bool nt = false;
  label(std::string("alg:") + ALG[c.alg].name);
  label(std::string("entry:") + EP_NAME[c.entry]);
  size_t kl = key.size();
  if (kl == 0) { label(c.key_null ? "key:empty(NULL)" : "key:empty"); nt = true; }
  else if (kl < B) label(kl == ALG[c.alg].hash ? "key:==hash" : "key:<block");
  else if (kl == B) { label("key:==block"); nt = true; }
  else { label(kl == B + 1 ? "key:block+1(hashed)" : "key:>block(hashed)"); nt = true; }
  if (c.kkind == KK_36 || c.kkind == KK_5C) label("key:pad-bytes");
  if (c.entry == SH_EP_STREAM) {
    label(std::string("impl:") + ALG[c.alg].name + "/" + IMPL_NAME[impl]);
    size_t nonempty = 0;
    bool empty = false;
    for (uint32_t n : sp) { if (n) nonempty++; else empty = true; }
    if (nonempty * rep >= 2) { label("updates>=2"); nt = true; }
    if (empty) label("empty-update");
    if (reused) label("ctx-reuse");
    if (reused && c.pre_alg != c.alg) label("ctx-reuse:other-hash-size");
    if (impl != SH_IMPL_DEFAULT && (uint32_t)impl != rs.default_impl) label("forced-non-default-transform");
    if (rep > 1) label("repeated-program");
    if (rs.rest_nz >= 0) label("note:hmac-ctx-padding-not-wiped");
  }
  uint64_t total = (uint64_t)msg.size() * rep;
  if (total == 0) label("len:0");
  else if (is_edge_len(total, B, c.alg)) label("len:padding-edge");
  if (total > 4 * B) label("len:>4blocks");
  if (nt) nontrivial_cur();
  return Verdict::pass();
}

// every key length 0..K x message lengths around the block x {one-shot entries, streaming with every
// compiled-in transform}; K = block+2 plus the 2-/3-block points in quick, 3 blocks (all) in thorough
static void enum_keys(double scale) {
  bool full = scale >= 3.0;
  set_exhaustive(full);
  for (int alg = 0; alg < SH_ALG_COUNT; alg++) {
    uint32_t B = (uint32_t)ALG[alg].block;
    std::vector<uint32_t> kls;
    if (full) for (uint32_t k = 0; k <= 3 * B; k++) kls.push_back(k);
    else {
      for (uint32_t k = 0; k <= (scale < 0.5 ? 8 : B + 2); k++) kls.push_back(k);
      for (uint32_t k : {B - 1, B, B + 1, 2 * B - 1, 2 * B, 2 * B + 1, 3 * B - 1, 3 * B})
        if (k > kls.back()) kls.push_back(k);
    }
    const uint32_t mls[] = {0, 1, B - 1, B, 2 * B + 5};
    for (uint32_t kl : kls)
      for (uint32_t ml : mls) {
        MCase c;
        c.alg = alg; c.kkind = K_RANDOM; c.klen = kl; c.kseed = kl * 17 + alg;
        c.kind = K_RANDOM; c.len = ml; c.seed = ml + 3 * kl;
        c.key_null = kl & 1;
        c.entry = (kl + ml) % 3 == 0 ? SH_EP_ONESHOT : (kl + ml) % 3 == 1 ? SH_EP_ONESHOT2 : SH_EP_HEXSTR;
        if (!enum_case(c.ser(), [&]() { return run_case(c); })) return;
        c.entry = SH_EP_STREAM;
        for (int impl : impls_of(alg)) {
          c.impl = impl;
          if (ml >= 2 && ((kl + impl) & 1)) c.splits = {1, (long long)ml - 1};
          else c.splits = {ml};
          if (!enum_case(c.ser(), [&]() { return run_case(c); })) return;
        }
      }
  }
}

int main(int argc, char **argv) {
  anchors();
  // budget only (same generator everywhere): bit-serial small-table Streebog and sanitised builds are 5-10x slower
  int budget = (sh_info(SH_INFO_SMALL_TABLES) || sh_info(SH_INFO_ASAN)) ? 10000 : 40000;
  add_check<MCase>("hmac", budget, 100, genCase, run_case);
  add_enum_check("enum_keys", 100, enum_keys, [](const std::string &t) { return run_case(MCase::parse(t)); });
  int rc = driver_main(argc, argv);
  // an interesting class that was never generated means the check is broken, not that the property held
  if (rc == 0 && !st().replay && st().only.empty() && st().stats.count("hmac") && st().stats["hmac"].evals >= 2000) {
    for (const char *l : {"key:empty", "key:empty(NULL)", "key:==block", "key:block+1(hashed)", "key:>block(hashed)", "key:==hash",
                          "updates>=2", "ctx-reuse", "ctx-reuse:other-hash-size", "entry:hexstr", "entry:oneshot", "entry:oneshot2"})
      if (!st().stats["hmac"].labels.count(l)) {
        fprintf(stderr, "CHECK-BROKEN: label class '%s' empty in check hmac\n", l);
        rc = 2;
      }
  }
  return rc;
}
