# C04 -- hash functions: standard digest for any message, chunking, alignment and build.
# The build-variant matrix below is shared with C07 (reg_C07.py imports hash_variants).
import os
import subprocess
import sys
from . import core
from .core import Variant
from .registry import prop, _pick

# compile-flag axis.  What exists in the headers (checked, see notes/C04.md):
#   __SSE2__ / __SSSE3__ / __SSE4_1__  -> sha1 SSE transform, gost SSE transform
#   __SHA__ && __SSSE3__ && __SSE4_1__ -> SHA1_ENABLE_SIMD, SHA2_ENABLE_SIMD (SHA-NI)
#   __AVX__ / __AVX2__                 -> gost AVX transform
#   "#undef __SSE2__" before the includes (tests/hash/main.c) -> -DSH_NOSIMD in shims/hash.c
#   GOST3411_2012_USE_SMALL_TABLES [+ _TABLE_TAU] -> only compiles without SSE2/AVX ("Incompatible with SIMD")
FLAGSETS = [
    ("base", []),                                   # default x86-64 (SSE2 only)
    ("ssse3", ["-mssse3"]),
    ("sse41", ["-msse4.1"]),
    ("avx", ["-mavx"]),
    ("avx2", ["-mavx2"]),
    ("sha", ["-msse4.1", "-mssse3", "-msha"]),
    ("native", ["-march=native"]),
    ("nosimd", ["-DSH_NOSIMD"]),                    # the suite's configuration
    ("nosimdavx2", ["-DSH_NOSIMD", "-mavx2"]),      # the suite's trick leaves the gost AVX transform in
    ("small", ["-DSH_NOSIMD", "-DGOST3411_2012_USE_SMALL_TABLES"]),
    ("smalltau", ["-DSH_NOSIMD", "-DGOST3411_2012_USE_SMALL_TABLES", "-DGOST3411_2012_USE_SMALL_TABLES_TABLE_TAU"]),
]


_probe = {}


def _gcc_sse2_only_builds():
    """does sha1.h compile with gcc -O1 and nothing above SSE2?  (pinned tree: no, see _compiles)"""
    if core.REPO not in _probe:
        src = ('#include <sys/param.h>\n#include <sys/types.h>\n#include <inttypes.h>\n#include <crypto/hash/sha1.h>\n'
               'int f(const uint8_t *p, size_t n, uint8_t *d) { sha1_get_digest(p, n, d); return d[0]; }\n')
        r = subprocess.run(["gcc", "-O1", "-w", "-I" + os.path.join(core.REPO, "include"), "-x", "c", "-", "-S", "-o", os.devnull],
                           input=src, stdout=subprocess.PIPE, stderr=subprocess.STDOUT, text=True)
        _probe[core.REPO] = (r.returncode == 0)
        if r.returncode != 0:
            print("NOTE: sha1.h does not compile with gcc -O1..-O3 without -msse4.1 (SSE4.1 intrinsic under an __SSE2__ guard); "
                  "the base_gccO2/O3 and ssse3_gccO2/O3 cells of the C04/C07 matrix are absent", file=sys.stderr)
    return _probe[core.REPO]


def _compiles(fs, cc, opt):
    # sha1.h uses _mm_extract_epi32 (SSE4.1) in the transform it guards with __SSE2__ only: gcc with
    # optimisation refuses to inline the intrinsic without -msse4.1 (clang and gcc -O0 accept it).
    # Reported in notes/C04.md as a build defect; such a build selects no transform at all. The cells come
    # back by themselves once the header compiles (probed on every run).
    if cc == "gcc" and opt != "-O0" and fs in ("base", "ssse3"):
        return _gcc_sse2_only_builds()
    return True


def all_variants():
    out = []
    i = 0
    for fs, fl in FLAGSETS:
        for cc in ("gcc", "clang"):
            for opt in ("-O0", "-O2", "-O3"):
                if not _compiles(fs, cc, opt):
                    continue
                out.append(Variant("%s_%s%s" % (fs, cc, opt.replace("-", "")), cc, fl + [opt], seed_off=i))
                i += 1
    return out


def hash_variants(tier, seed):
    allv = all_variants()
    byname = {v.name: v for v in allv}
    everything = ["-mavx2", "-msse4.1", "-mssse3", "-msha"]
    # sanitised twins (clang -O1 with ASan needs ~60-90 s to compile this unit, -O0 takes 2 s)
    if tier == "thorough":
        vs = list(allv)
        vs.append(Variant("all_clangO0_asan", "clang", everything + ["-O0"], san=True, seed_off=900))
        vs.append(Variant("all_gccO1_asan", "gcc", everything + ["-O1"], san="asan_only", seed_off=901))
        vs.append(Variant("small_gccO1_asan", "gcc", ["-DSH_NOSIMD", "-DGOST3411_2012_USE_SMALL_TABLES", "-O1"], san="asan_only", seed_off=902))
        vs.append(Variant("base_clangO0_asan", "clang", ["-O0"], san=True, seed_off=903))
        return vs
    fixed = ["nosimd_gccO2", "base_clangO2", "sse41_gccO2", "avx2_gccO3", "sha_clangO2", "small_gccO2", "smalltau_clangO3"]
    vs = [byname[n] for n in fixed]
    rest = [v for v in allv if v.name not in fixed]
    vs += _pick(rest, 2, seed)
    vs.append(Variant("all_clangO0_asan", "clang", everything + ["-O0"], san=True, seed_off=900))
    return vs


@prop("C04")
def c04():
    return dict(
        units=[dict(kind="rc", driver="C04_hash", shims=["hash.c"], variants=hash_variants,
                    scale={"quick": 1.0, "thorough": 4.0})],
        level="exploration",
        rule=("rapidcheck cases (algorithm, compiled-in transform forced through ctx.use_*, entry point streaming/one-shot/hex, message "
              "length from a mixture of 0..2 blocks+1, padding edges, <=4 blocks, multi-block and up to 64 KiB, content random/00/FF/80/"
              "carry patterns, partition into updates biased to block-1/block/block+1, dribble, block-completing and empty updates, source "
              "alignment 0..63 in exactly sized allocations, context junk fill, context reuse, md5 context memcpy-clone) run against every "
              "build variant and compared with libgcrypt (and OpenSSL for six algorithms); enumerations add every length 0..2 blocks+1 "
              "(thorough: 0..4 blocks+1) x every compiled-in transform x {one-shot, hex, single update, two edge partitions} and every "
              "alignment 0..63 x five bulk lengths. Non-trivial: the message crosses >=1 block boundary with >=1 split off a block boundary, "
              "or the length is a padding edge (len mod block in {lenfield-1, lenfield, lenfield+1, block-1, 0, 1}), or alignment != 0 with "
              ">=2 blocks in one update, or a forced transform that differs from the CPUID default. distinct = per check, max over variants "
              "of distinct case fingerprints (variants use different seeds, so this undercounts)."),
        assumptions=["libgcrypt 1.10 is correct (cross-checked per case against OpenSSL 3 for MD5/SHA-1/SHA-2; Streebog anchored on RFC 6986 M1/M2 only)",
                     "contexts are allocated with the alignment their type demands (32 bytes for sha1/sha2/gost); messages < 2^61 bytes",
                     "gcc -O1..-O3 without -msse4.1 does not compile sha1.h (SSE4.1 intrinsic under an __SSE2__ guard): those cells of the "
                     "matrix are absent, small tables exist only in SIMD-less builds (the header says so)"],
    )


MANIFEST = {
    "C04": dict(
        engine="rc-shim",
        technique="rapidcheck differential testing against libgcrypt/OpenSSL over a build-variant matrix, plus enumeration of all short lengths and all source alignments per compiled-in block transform",
        text=("Generated-input search: messages (length mixture incl. all padding edges, carry-pattern content), arbitrary partitions into update "
              "calls, source alignments 0..63 and every compiled-in block transform (forced through the public ctx.use_* fields like the library's "
              "self test) are run in 10 (quick) / 66 (thorough) build variants {default, -mssse3, -msse4.1, -mavx, -mavx2, -msha, -march=native, "
              "SIMD disabled, small tables} x {gcc, clang} x {-O0,-O2,-O3} and compared with libgcrypt and OpenSSL; one-shot, hex-string and "
              "streaming entry points must agree; every byte of the context must be zero after *_final."),
        design_ref="DESIGN.md section 4 C04",
        note=("Sampling plus small exhaustive sub-spaces, not proof. Trusts libgcrypt (sole reference for Streebog). Messages >= 2^61 bytes "
              "(count_hi path) unreachable; bit lengths > 2^32 are covered by one 512 MiB case per fast algorithm in the thorough tier only."),
    ),
}
