from .registry import prop
from .tp_common import TP_CORE, tp_variants


@prop("C11")
def c11():
    return dict(
        units=[dict(kind="rc", driver="C11_life", shims=["tp_common.c", "tp_life.c"] + TP_CORE, variants=tp_variants,
                    scale={"quick": 1.0, "thorough": 10.0})],
        level="fault_enumeration",
        rule=("rapidcheck life-cycle histories (optionally one thread - preferably the attached one - has a stop hook that takes 1.5 ms before it reports; "
              "on a failed create every start hook that ran must be balanced by its stop hook): create(1..16 threads, BIND2CPU/CLOEXEC) -> threads_create(skip_first) [-> attach_first from a "
              "helper thread] -> in-flight work (messages incl. to the virtual thread, periodic 1 ms timer, readable pipe event) -> early "
              "shutdown_wait (EBUSY) / destroy from a pool thread (EDEADLK) -> shutdown {outside, from a pool thread, two threads at once, "
              "twice, skipped} -> late threads_create/attach_first (EBUSY) -> shutdown_wait {none, outside, pool thread first, two at once} "
              "-> destroy; start/stop hooks on all / one / no thread, a created worker that detaches itself (tp_thread_dettach) before the shutdown, waiters that block "
              "until the attached thread has left; schedule plan at the LIBLCB_VERIF points; resource-fault plan (k-th calloc / epoll_create1 / pipe2 / epoll_ctl / "
              "pthread_create fails). The fault sweep enumerates every k observed in a fault-free run of fixed histories, for every function. "
              "Non-trivial: shutdown from inside the pool, concurrent shutdown/wait, in-flight work, or an injected fault. "
              "distinct = distinct history fingerprints."),
        assumptions=["tp_destroy is called once per pool (a second destroy of a freed handle is outside any C API contract)",
                     "user-owned event registrations are deleted by their owner before tp_destroy",
                     "a call that never returns is caught by a 180 s alarm and must reproduce in the replay tier"],
    )


MANIFEST = {"C11": dict(
    engine="tp-sched",
    category="fault_enumeration",
    technique="rapidcheck life-cycle histories with schedule plans + exhaustive k-th-failure sweep of every resource call; hook/callback history and exact resource accounting",
    text=("Generated create/start/shutdown/wait/destroy histories run on the real pool with every libc resource call of the library interposed: "
          "return codes, start/stop hooks exactly once per thread, no hook or callback after tp_destroy returned, every fd/allocation/thread "
          "released, failed creation leaves nothing. The sweep fails the k-th call of calloc/epoll_create1/pipe2/epoll_ctl/pthread_create for "
          "every k the history performs."),
    design_ref="DESIGN.md section 4 C11",
    note="Interleavings sampled at marked points; termination judged by a wall-clock ceiling that must reproduce. Kernel epoll/pipe/pthread trusted.",
)}
