# C15 -- DNS and RADIUS messages built by the library parse back and authenticate per RFC.
from .core import Variant
from .registry import prop


def variants(tier, seed):
    return [
        Variant("gccO2", "gcc", ["-O2"], seed_off=0),
        Variant("clangO2", "clang", ["-O2"], seed_off=1),
        Variant("gccO0", "gcc", ["-O0"], seed_off=2),
        Variant("clangO1_asan", "clang", ["-O1"], san=True, seed_off=3, scale=(1.0 if tier == "quick" else 0.25)),  # the sanitised build with an OpenSSL reference is ~6x slower: a quarter of the thorough budget
    ]


@prop("C15")
def c15():
    return dict(
        units=[dict(kind="rc", driver="C15_msg", shims=["proto_shim.c"], variants=variants,
                    scale={"quick": 1.0, "thorough": 12.0})],
        level="exploration",
        rule=("rapidcheck cases against refimpl/dns_ref.hpp (RFC 1035 4.1 encoder/decoder, RFC 6891 OPT) and refimpl/radius_ref.hpp "
              "(RFC 2865/2866/2869/5176/5997 over OpenSSL MD5/HMAC-MD5, anchored on the RFC 2865 section 7 packets) in 4 build variants; "
              "every buffer is allocated with exactly the generated size. dns_name: host names from a grammar (1..253 bytes, 63-byte labels, "
              "127 one-byte labels, totals 250..255+, empty / over-long labels) through DomainNameToSequenceOfLabels / dns_msg_name2sequence_of_labels "
              "and back; dns_hdr_counts: set/inc/dec sequences on the four section counts with arbitrary 16-bit values against the RFC 1035 wire bytes; "
              "dns_name_shapes enumerates every label length 1..65, 1..130 one-byte labels and totals 240..258. dns_msg: histories "
              "dns_hdr_create -> question_add* -> rr_add* (+ the caller's counter increment) -> optrr_add? into a buffer of generated size until "
              "EOVERFLOW, retry with the reported size, byte comparison with the RFC encoding after every step, then validate / info_get / "
              "question_get_data / rr_get_data / rr_find against the reference decoder. rad_pw: password hiding and un-hiding with exact buffers. "
              "rad_pkt: radius_pkt_init / reply_init (all 14 codes + invalid), attribute sequences from rad_attr_params with correct and off-by-one "
              "lengths, User-Password 0..128 (+129), sign (Message-Authenticator present / added / absent), verify with right and wrong secret, wrong "
              "request authenticator, and one generated change of every byte of the signed packet; rad_corrupt_exh: all 255 changes of every byte of "
              "14 (quick) / 168 (thorough) reference-signed packets. Non-trivial: >= 2 questions/records/attributes, or buffer-full reached, or a "
              "reply bound to a request, or corruption inside an attribute covered only by Message-Authenticator; names: >= 2 labels, a 63-byte label, "
              "total >= 253, a refused name or a short buffer. distinct = per check, max over variants of distinct case fingerprints."),
        assumptions=["OpenSSL MD5 / HMAC-MD5 are correct (checked at start-up against RFC 1321, RFC 2202 and the RFC 2865 section 7 packets)",
                     "DNS header id/flags and the OPT flags are passed in wire (memory) order, as dns_resolv.c does",
                     "the caller increments the section counter after dns_msg_rr_add / dns_msg_optrr_add and adds items in section order",
                     "names looked up with dns_msg_rr_find contain no NUL byte (callers pass C strings)",
                     "User-Password appears in Access-Request only; Accounting-Response with Message-Authenticator, the root name and names "
                     "longer than 253 bytes are probe classes (exercised, labelled, not asserted)",
                     "receivers call radius_pkt_chk() before radius_pkt_verify(), as radius_client.c does"],
    )


MANIFEST = {"C15": dict(
    engine="rc-state",
    technique="rapidcheck histories and values, differential against spec-derived RFC 1035 / RFC 2865-family references (OpenSSL MD5/HMAC-MD5)",
    text=("Generated-input search: DNS messages are assembled through the library's add functions into exactly-sized buffers until EOVERFLOW and "
          "compared byte for byte with an independent RFC 1035 encoder, then parsed back with the library and compared with an independent decoder; "
          "RADIUS packets are assembled from generated attribute sequences, signed and verified, and the authenticator, Message-Authenticator and "
          "hidden password are compared with RFC 2865/2866/2869/5176 values; every single-byte corruption the RFC's MACs cover must be rejected."),
    design_ref="DESIGN.md section 4 C15",
    note=("Sampling, not proof. Trusts OpenSSL MD5. Where the RFCs give no integrity (Access-Request without Message-Authenticator) the oracle "
          "accepts what the reference accepts. Probe classes (root name, names > 253 bytes, Accounting-Response + Message-Authenticator, "
          "User-Password outside Access-Request) are exercised but not asserted; see notes/C15.md."),
)}
