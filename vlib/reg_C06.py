from .registry import prop
from .tp_common import TP_CORE, tp_variants, INTERPOSE

# threadpool.c reaches pidfd_open through syscall(): redirect it as well so that process descriptors are accounted for
TP_CORE_PROC = [dict(t, cflags=INTERPOSE + ["-Dsyscall=verif_syscall"]) if t["src"].endswith("threadpool.c") else t for t in TP_CORE]


@prop("C06")
def c06():
    return dict(
        units=[dict(kind="rc", driver="C06_ev", shims=["tp_common.c", "tp_ev.c"] + TP_CORE_PROC, variants=tp_variants,
                    scale={"quick": 1.0, "thorough": 10.0})],
        level="exploration",
        rule=("(a) ev_program: rapidcheck sequences of add/enable/disable/delete with generated event kind, flags (valid and unknown bits), "
              "filter flags (all four units, ABSTIME, unknown bits), data values around unit boundaries / 2^32 / random 62-bit, valid and "
              "invalid identifiers (also 2^32|fd and 2^63|fd), NULL callback; the arguments reaching timerfd_create/timerfd_settime/epoll_ctl are captured and compared "
              "with an exact 128-bit integer conversion, SO_RCVLOWAT of the registered socket is read back after every operation (only a READ registration with TP_FF_RW_LOWAT may change it); plus an exhaustive unit-boundary table. (b) ev_fire: rapidcheck histories over 1-3 "
              "channels (socketpair read, socketpair write, 1-12 ms timers) of add/enable/disable/delete (on the owning thread or from "
              "outside; also through tpt_ev_enable_args1(), which has no flags argument and must keep the registered ones), peer write, drain, peer close, half close, sleep, descriptor reuse (both ends closed without a delete and a new socket pair "
              "on the same number while the user record keeps its state), pipe write ends whose reader closes (error condition), timers named after the "
              "descriptor number of another channel (also as the template 'registration + timer named after it, the timer reports first'), registrations made on the pool's "
              "virtual thread; a per-channel model predicts silent / exactly-once / at-least-once; negative "
              "claims are sequenced through the owning thread with fences, awaited callbacks use a 20 s ceiling (3 of 3 runs). (c) ev_proc: "
              "rapidcheck histories over 1-3 real child processes (forked by the harness, exit code 0..255 or killed by SIGKILL) of "
              "add/enable/disable/delete (valid and malformed flags / filter flags, in-thread or from outside), child exit and sleep, also for "
              "processes that are not children of the test process (re-parented grandchildren the pool thread cannot reap), with an "
              "optional injected epoll_ctl failure; a model predicts every return code (EEXIST, ENOENT, ESRCH after the library reaped the "
              "child, EINVAL before the first add), exactly one report per exit carrying TP_FF_P_EXIT and the true wait status, silence after "
              "disable/delete, and the exact number of open process descriptors after every step (pidfd_open is counted through the "
              "redirected syscall()); user records that carry stale state of an earlier read registration (disabled, descriptor closed, never deleted). "
              "(k) ev_sibling_removal: 2-6 registrations (read / write / 1-3 ms timers; persistent, one-shot, dispatch) of one thread are made ready while the thread "
              "is busy in a callback; the first callback of each channel deletes or disables a generated set of siblings; oracle over the owner-thread log: no "
              "callback for a registration after its removal returned 0, event kind as registered, one-shot/dispatch read/write at most once, every "
              "registration that was not removed reports (20 s ceiling, 3 of 3 runs). Non-trivial: "
              "sub-second or >=2^32 timer data, one-shot/dispatch registrations, >=3 operations, disable/delete with the condition still "
              "holding, EOF, >=2 channels. distinct = distinct case fingerprints."),
        assumptions=["flag bits 2-3 (reserved for EDGE/EXCLUSIVE in the header mask) are not asserted either way",
                     "timer values whose seconds exceed 2^62 are outside the asserted domain (time_t)",
                     "process events: the children are direct children of the test process and nobody else waits for them",
                     "the kernel's epoll/timerfd semantics are trusted"],
    )


MANIFEST = {"C06": dict(
    engine="tp-sched",
    technique="rapidcheck: captured-syscall-argument oracle with exact integer conversion + model-based firing histories on the real kernel",
    text=("Registration programming is decided deterministically by comparing the captured timerfd/epoll arguments with an exact conversion "
          "for every unit, flag and boundary value, including refusal of malformed registrations without residue; firing behaviour is decided "
          "by model-based histories (persistent / one-shot / dispatch / disabled / deleted / EOF) on a live pool thread, and process events by "
          "histories over real child processes with exact return-code, report-count, wait-status and descriptor-count predictions."),
    design_ref="DESIGN.md section 4 C06",
    note="Part (b) samples histories and schedules; awaited events use a ceiling that must be hit 3 of 3 times to count. No RST/error-flag scenario.",
)}
