# Per-property configuration: units (driver + shim + build matrix), rules, assumptions.
import random
from .core import Variant

PROPS = {}


def prop(pid):
    def deco(fn):
        PROPS[pid] = fn
        return fn
    return deco


def _pick(rows, n, seed):
    r = random.Random(seed)
    rows = list(rows)
    r.shuffle(rows)
    return rows[:n]


# ---------------------------------------------------------------- C01
def c01_variants(tier, seed):
    allv = []
    i = 0
    for w in (8, 16, 32, 64, 128):
        for ccmd in ((1, 0) if w != 128 else (0,)):
            for cc in ("gcc", "clang"):
                for opt in ("-O0", "-O2", "-O3"):
                    name = "w%d%s_%s%s" % (w, "cc" if ccmd else "pt", cc, opt.replace("-", ""))
                    fl = ["-DBN_DIGIT_BIT_CNT=%d" % w, "-DBN_BIT_LEN=%d" % (2048 if w >= 32 else 1408), opt]
                    if ccmd:
                        fl.append("-DBN_CC_MULL_DIV")
                    allv.append(Variant(name, cc, fl, seed_off=i))
                    i += 1
    byname = {v.name: v for v in allv}
    if tier == "thorough":
        vs = allv
    else:
        fixed = ["w64cc_gccO2", "w64pt_gccO2", "w8pt_clangO3", "w32cc_clangO0", "w128pt_gccO3", "w16pt_gccO0"]
        vs = [byname[n] for n in fixed]
        rest = [v for v in allv if v.name not in fixed]
        vs += _pick(rest, 3, seed)
    # sanitised twins of two configurations (ASan; clang adds the UBSan verdict subset)
    vs = list(vs)
    vs.append(Variant("w64cc_clangO1_asan", "clang", ["-DBN_DIGIT_BIT_CNT=64", "-DBN_CC_MULL_DIV", "-DBN_BIT_LEN=2048", "-O1"], san="asan_only", seed_off=900))
    vs.append(Variant("w8pt_gccO1_asan", "gcc", ["-DBN_DIGIT_BIT_CNT=8", "-DBN_BIT_LEN=1408", "-O1"], san="asan_only", seed_off=901,
                      scale=(0.3 if tier == "quick" else 1.0)))  # 8-bit digits under gcc ASan are ~15x slower than the rest: a third of the quick budget
    return vs


@prop("C01")
def c01():
    return dict(
        units=[dict(kind="rc", driver="C01_bn", shims=["bn.c"], variants=c01_variants,
                    scale={"quick": 1.0, "thorough": 8.0})],
        level="exploration",
        rule=("rapidcheck cases (op, operand capacities, values from an edge-biased mixture, junk fill of stale storage, aliasing) run "
              "against every build variant and compared with GMP; W=8 variants add an enumeration of all one-digit operand pairs. "
              "Non-trivial: carry/borrow chain crossing >=2 digit boundaries, wrap at capacity, multi-digit long division, result at or "
              "one digit past capacity, aliased operands, non-zero junk above the significant digits, modular reduction taken, "
              "multi-digit recoding/import/export. distinct = per check, max over variants of distinct case fingerprints (variants use "
              "different seeds, so this undercounts)."),
        assumptions=["GMP is correct", "shift counts stay inside the envelope the source documents by its disabled range guards "
                     "(l_shift < count*W, r_shift <= digits*W)", "modular operands are reduced (x < m), m odd for inversion, m prime for legendre/sqrt",
                     "hex import strings hold an even number of hex digits"],
    )
