# C02 -- elliptic-curve group law and scalar multiplication in every build.
# Build-variant matrix: a deterministic pairwise-covering array over the configuration macros of
# include/math/elliptic_curve.h and the digit width of include/math/big_num.h, plus the pinned suite's
# configuration (tests/ecdsa/main.c), the header defaults, and sanitised twins.
import random
from .core import Variant
from .registry import prop

# numeric values of EC_PF_*_ALGO_* (elliptic_curve.h)
BIN, PREDBL, SLWIN, COMB1, COMB2, SAME = 0, 1, 2, 3, 4, 5
T_BIN, T_FXP_UNKPT, T_JOINT, T_INTER = 0, 1, 2, 3

FACTORS = {
    "proj": [0, 1],                 # EC_USE_PROJECTIVE
    "mix": [0, 1],                  # EC_PROJ_ADD_MIX   (also changes the direct Jacobian entry points of affine builds)
    "rep": [0, 1],                  # EC_PROJ_REPEAT_DOUBLE
    "fa": [BIN, PREDBL, SLWIN, COMB1, COMB2],        # EC_PF_FXP_MULT_ALGO
    "fw": [1, 2, 3, 4, 5, 6, 7, 8, 9],                # EC_PF_FXP_MULT_WIN_BITS (also sizes every table type)
    "ua": [BIN, PREDBL, SLWIN, COMB1, COMB2, SAME],  # EC_PF_UNKPT_MULT_ALGO
    "uw": [0, 1, 2, 3, 4, 5, 6, 7, 8, 9],             # EC_PF_UNKPT_MULT_WIN_BITS (0 = not passed / not used)
    "tw": [T_BIN, T_FXP_UNKPT, T_JOINT, T_INTER],    # EC_PF_TWIN_MULT_ALGO
    "wd": ["8pt", "8cc", "16pt", "16cc", "32pt", "32cc", "64pt", "64cc", "128pt"],  # BN_DIGIT_BIT_CNT / BN_CC_MULL_DIV
}
ORDER = ["proj", "mix", "rep", "fa", "fw", "ua", "uw", "tw", "wd"]


def valid(r):
    """Legal configurations, derived from the header (notes/C02.md 'configuration domain')."""
    if r["fa"] == SLWIN and r["fw"] not in (1, 2, 4, 8):      # "must be power of 2" and <= digit bits
        return False
    if r["ua"] in (BIN, PREDBL, SAME):
        if r["uw"] != 0:
            return False
    else:
        if r["uw"] == 0 or r["uw"] > r["fw"]:                 # table types are sized by EC_PF_FXP_MULT_WIN_BITS
            return False
        if r["ua"] == SLWIN and r["uw"] not in (1, 2, 4, 8):
            return False
    if r["tw"] == T_INTER and not r["proj"]:                  # ec_point_affine_inter_twin_mult does not exist
        return False
    return True


def _pairs(r):
    out = []
    for i, a in enumerate(ORDER):
        for b in ORDER[i + 1:]:
            out.append((a, r[a], b, r[b]))
    return out


_CACHE = {}


def covering_array():
    """Greedy pairwise covering array, fixed PRNG seed => identical on every run."""
    if "rows" in _CACHE:
        return _CACHE["rows"]
    rnd = random.Random(20261002)

    def rand_row():
        while True:
            r = {f: rnd.choice(FACTORS[f]) for f in ORDER}
            if r["ua"] in (BIN, PREDBL, SAME):
                r["uw"] = 0
            elif r["uw"] == 0 or r["uw"] > r["fw"]:
                r["uw"] = rnd.randint(1, r["fw"])
            if valid(r):
                return r

    universe = set()
    pool = [rand_row() for _ in range(6000)]
    for r in pool:
        universe.update(_pairs(r))
    uncovered = set(universe)
    rows = []
    while uncovered:
        best, best_n = None, -1
        # candidates: random rows, half of them forced through one uncovered pair
        target = sorted(uncovered, key=str)[0]
        cands = [r for r in pool[rnd.randrange(0, 5000):][:120]]
        for r in pool:
            if r[target[0]] == target[1] and r[target[2]] == target[3]:
                cands.append(r)
                if len(cands) > 260:
                    break
        for r in cands:
            n = sum(1 for p in _pairs(r) if p in uncovered)
            if n > best_n:
                best, best_n = r, n
        if best_n <= 0:
            break
        rows.append(best)
        uncovered.difference_update(_pairs(best))
    _CACHE["rows"] = rows
    _CACHE["universe"] = len(universe)
    return rows


def row_name(r):
    return "p%dm%dr%d_f%dw%d_u%dw%d_t%d_d%s" % (r["proj"], r["mix"], r["rep"], r["fa"], r["fw"], r["ua"], r["uw"], r["tw"], r["wd"])


def row_flags(r):
    w = int(r["wd"][:-2])
    fl = ["-DBN_DIGIT_BIT_CNT=%d" % w, "-DBN_BIT_LEN=%d" % (2048 if w == 128 else 1408)]
    if r["wd"].endswith("cc"):
        fl.append("-DBN_CC_MULL_DIV")
    if r["proj"]:
        fl.append("-DEC_USE_PROJECTIVE")
    if r["mix"]:
        fl.append("-DEC_PROJ_ADD_MIX")
    if r["rep"]:
        fl.append("-DEC_PROJ_REPEAT_DOUBLE")
    fl += ["-DEC_PF_FXP_MULT_ALGO=%d" % r["fa"], "-DEC_PF_FXP_MULT_WIN_BITS=%d" % r["fw"], "-DEC_PF_UNKPT_MULT_ALGO=%d" % r["ua"],
           "-DEC_PF_TWIN_MULT_ALGO=%d" % r["tw"]]
    if r["uw"]:
        fl.append("-DEC_PF_UNKPT_MULT_WIN_BITS=%d" % r["uw"])
    return fl


SUITE_FLAGS = ["-DBN_DIGIT_BIT_CNT=64", "-DBN_BIT_LEN=1408", "-DBN_CC_MULL_DIV=1", "-DBN_NO_POINTERS_CHK=1", "-DBN_MOD_REDUCE_ALGO=0",
               "-DEC_USE_PROJECTIVE=1", "-DEC_PROJ_REPEAT_DOUBLE=1", "-DEC_PROJ_ADD_MIX=1", "-DEC_PF_FXP_MULT_ALGO=4",
               "-DEC_PF_FXP_MULT_WIN_BITS=9", "-DEC_PF_UNKPT_MULT_ALGO=3", "-DEC_PF_UNKPT_MULT_WIN_BITS=2", "-DEC_PF_TWIN_MULT_ALGO=3",
               "-DEC_DISABLE_PUB_KEY_CHK=1"]
W8_COMB9 = dict(proj=1, mix=1, rep=1, fa=COMB1, fw=9, ua=COMB2, uw=3, tw=T_JOINT, wd="8cc")
AFFINE_BIN = dict(proj=0, mix=0, rep=0, fa=BIN, fw=8, ua=BIN, uw=0, tw=T_BIN, wd="64cc")


def variants(tier, seed):
    rows = covering_array()
    opts = ["-O2", "-O1", "-O3", "-O0", "-O2", "-Os"]
    allv = []
    for i, r in enumerate(rows):
        cc = "gcc" if i % 2 == 0 else "clang"
        opt = opts[i % len(opts)]
        if opt == "-O0" and (r["wd"] not in ("64cc", "32cc", "32pt") or r["fw"] > 6):
            opt = "-O1"  # unoptimised code only on rows that are cheap anyway (the compiler axis belongs to C01)
        allv.append(Variant(row_name(r) + "_" + cc + opt.replace("-", ""), cc, row_flags(r) + [opt], seed_off=10 + i))
    fixed = [
        Variant("suite_gccO2", "gcc", SUITE_FLAGS + ["-O2"], seed_off=0),
        Variant("hdrdefaults_gccO2", "gcc", ["-O2"], seed_off=1),
        Variant("affine_bin_clangO2", "clang", row_flags(AFFINE_BIN) + ["-O2"], seed_off=2),
        Variant("suite_clangO1_asan", "clang", SUITE_FLAGS + ["-O1"], san="asan_only", seed_off=3),
        # 8-bit digits with a 9-bit comb window: the configuration in which finding ec_comb_window_gt_digit_bits reproduces
        Variant("w8_comb9_gccO2", "gcc", row_flags(W8_COMB9) + ["-O2"], seed_off=5),
    ]
    if tier == "thorough":
        extra = [Variant("affine_joint_gccO1_asan", "gcc",
                         row_flags(dict(proj=0, mix=1, rep=1, fa=COMB1, fw=4, ua=SLWIN, uw=2, tw=T_JOINT, wd="32pt")) + ["-O1"],
                         san="asan_only", seed_off=4)]
        return fixed + extra + allv
    r = random.Random(seed)
    picked = list(allv)
    r.shuffle(picked)
    return fixed + picked[:6]


@prop("C02")
def c02():
    return dict(
        units=[dict(kind="rc", driver="C02_ec", shims=["ec.c"], variants=variants,
                    scale={"quick": 1.0, "thorough": 3.0})],
        level="exploration",
        rule=("rapidcheck cases (curve, entry point, operands, scalars) executed in every build variant and compared with the textbook "
              "affine group law over GMP (refimpl/ec_ref.hpp, itself anchored on OpenSSL for the SECG/NIST/brainpool curves): all 32 table "
              "curves (points k*G, -P, P=Q, infinity, points outside <G> on the h=4 curves), synthetic mid-size curves (16..64-bit primes, "
              "a=p-3 with and without the A_M3 flag, a=0, even and prime orders) and tiny curves p<=251 whose whole group is enumerated; "
              "scalars 0,1,2,n-1,n,n+1,2^i,2^i-1, window / comb-column / digit-boundary patterns, twin pairs forced to k*P = +-l*Q; "
              "enum_tiny enumerates all point pairs, all (P,k) and all (k,l) on fixed tiny curves (sampled with a stride in quick). "
              "Non-trivial: synthetic curve, or infinity operand/result, P=+-Q, boundary scalar, or the reference ladder for the algorithm "
              "in use (binary, fixed window over digits, comb columns, JSF, width-4 NAF re-implemented in the driver) meets an exceptional "
              "addition (equal / opposite / infinite operands). distinct = per check, max over variants of distinct case fingerprints."),
        assumptions=["GMP and OpenSSL (anchor only) are correct",
                     "points are (0 <= x,y < p) on the curve or at infinity; operand/result objects have curve->m or EC_CURVE_CALC_BITS_DBL bits of capacity and scalars EC_CURVE_CALC_BITS_DBL bits, as in every in-tree caller",
                     "BN_BIT_LEN is large enough for the curve (1408 as in the suite; 2048 for 128-bit digits)",
                     "window bits of explicit tables <= EC_PF_FXP_MULT_WIN_BITS (array size) and a power of two <= digit bits for the sliding window; EC_PF_UNKPT_MULT_WIN_BITS <= EC_PF_FXP_MULT_WIN_BITS",
                     "affine builds are not combined with EC_PF_TWIN_MULT_ALGO_INTER (does not compile: no affine interleaved twin multiplication exists)",
                     "scalars satisfy 0 <= k <= max(n, 2^m - 1)"],
    )


MANIFEST = {
    "C02": dict(
        engine="rc-shim",
        technique="rapidcheck differential testing against a textbook affine group-law reference (GMP, anchored on OpenSSL) over a pairwise-covering build-variant matrix, plus exhaustive enumeration on tiny synthetic curves",
        text=("Generated-input search: every point addition / subtraction / doubling / scalar multiplication / double-scalar multiplication "
              "entry point of elliptic_curve.h (configured dispatch macros and every algorithm called directly with an explicit table, in "
              "affine and Jacobian coordinates) is run on the 32 built-in curves, on synthetic 16..64-bit curves and on tiny curves with "
              "enumerated groups, in 11 (quick) / 133 (thorough) build variants, and must return rc 0 and exactly the reference point."),
        design_ref="DESIGN.md section 4 C02",
        note=("Sampling, not proof: on cryptographic-size curves exceptional branches are reached only by constructed scalars/points; they are "
              "exhaustive only on tiny synthetic curves. Trusts GMP. Configuration domain restrictions (window <= table size, no affine+INTER) "
              "are listed in notes/C02.md."),
    ),
}
