from .registry import prop
from .tp_common import TP_CORE, tp_variants


@prop("C10")
def c10():
    return dict(
        units=[dict(kind="rc", driver="C10_bcast", shims=["tp_common.c", "tp_msg.c"] + TP_CORE, variants=tp_variants,
                    scale={"quick": 1.0, "thorough": 10.0})],
        level="exploration",
        rule=("rapidcheck scenarios: pool size 1..16, subsets of threads not started / stopped, 1-3 concurrent broadcasts from external or pool "
              "threads through tpt_msg_bsend_ex / tpt_msg_cbsend with every flag combination the API documents (SYNC self-deadlock shapes the "
              "header warns about are excluded and counted), user callbacks of 0-2 ms, schedule plan at the LIBLCB_VERIF points (incl. the "
              "unlock/done_cb point), queue-write fault plan, a caller that belongs to another pool (bsend_ex and cbsend), a storm of handled signals (SIGUSR1 every 50-300 us at the "
              "caller) during synchronous waits; plus an exhaustive single-fault sweep. Non-trivial: a target not running, "
              "caller inside the pool, concurrent broadcasts, or an injected fault. distinct = distinct scenario fingerprints."),
        assumptions=["interleavings are perturbed at marked points, not enumerated",
                     "SYNC issued by a pool thread to itself, or by two pool threads at once, is a documented deadlock and outside the property",
                     "a hang is reported only if the 20 s ceiling is hit in 3 of 3 runs"],
    )


MANIFEST = {"C10": dict(
    engine="tp-sched",
    technique="rapidcheck-generated broadcast scenarios + schedule/fault plans, history invariants, allocation accounting; exhaustive single-fault sweep",
    text=("Generated broadcast scenarios run on the real pool; the history is checked for once-per-targeted-thread delivery, sent+failed == "
          "targeted, SYNC completion-before-return, completion callback exactly once / last / on the originating thread / true counts, "
          "one-by-one non-overlap and order, and that every broadcast record is freed; the caller's dead stack frames are overwritten after "
          "a SYNC return so a late access crashes (ASan use-after-return in the sanitised variant)."),
    design_ref="DESIGN.md section 4 C10",
    note="Schedules are sampled at marked points, not enumerated. Documented SYNC self-deadlock shapes are excluded by construction and counted.",
)}
