# C03 -- ECDSA / GOST R 34.10 signatures: complete, sound, standard-conforming.
from .core import Variant
from .registry import prop, _pick

# liblcb build configurations (macro names from include/math/elliptic_curve.h, include/math/big_num.h)
FXP = dict(BIN=0, PRECALC_DBL=1, SLIDING_WIN=2, COMB_1T=3, COMB_2T=4)
TWIN = dict(BIN=0, FXP_UNKPT=1, JOINT=2, INTER=3)


def ec_flags(w=64, cc=True, proj=True, mix=True, rep_dbl=True, fxp="COMB_2T", fxp_w=9, unk="COMB_1T", unk_w=2,
             twin="INTER", bitlen=1408, nochk=False, scale=100, noptrchk=False):
    f = ["-DBN_DIGIT_BIT_CNT=%d" % w, "-DBN_BIT_LEN=%d" % bitlen, "-DBN_MOD_REDUCE_ALGO=0"]
    if cc:
        f.append("-DBN_CC_MULL_DIV=1")
    if noptrchk:
        f.append("-DBN_NO_POINTERS_CHK=1")
    if proj:
        f.append("-DEC_USE_PROJECTIVE=1")
        if mix:
            f.append("-DEC_PROJ_ADD_MIX=1")
        if rep_dbl:
            f.append("-DEC_PROJ_REPEAT_DOUBLE=1")
    f += ["-DEC_PF_FXP_MULT_ALGO=%d" % FXP[fxp], "-DEC_PF_FXP_MULT_WIN_BITS=%d" % fxp_w,
          "-DEC_PF_UNKPT_MULT_ALGO=%d" % FXP[unk], "-DEC_PF_UNKPT_MULT_WIN_BITS=%d" % unk_w,
          "-DEC_PF_TWIN_MULT_ALGO=%d" % TWIN[twin], "-DES_CASE_SCALE_PCT=%d" % scale]
    if nochk:
        f.append("-DEC_DISABLE_PUB_KEY_CHK=1")
    return f


# the configuration of /repo/tests/ecdsa/main.c
SUITE = dict(w=64, cc=True, proj=True, mix=True, rep_dbl=True, fxp="COMB_2T", fxp_w=9, unk="COMB_1T", unk_w=2,
             twin="INTER", bitlen=1408, nochk=True, noptrchk=True)


def c03_all():
    vs = [
        # 0: exactly the suite's configuration
        Variant("suite_w64cc_proj_inter", "gcc", ec_flags(**SUITE) + ["-O2"], seed_off=0),
        # 1: header defaults (affine coordinates, COMB_2T w8, COMB_1T w2, JOINT twin), ASan + UBSan subset
        Variant("defaults_w64cc_affine_joint_asan", "clang", ["-DBN_BIT_LEN=2048", "-DES_CASE_SCALE_PCT=22", "-O1"], san="asan_only", seed_off=1),
        # 2: W=32, projective without mixed addition / repeated doubling, sliding windows, twin = fxp + unkpt
        Variant("w32cc_proj_nomix_slwin_fxpunk", "gcc",
                ec_flags(w=32, proj=True, mix=False, rep_dbl=False, fxp="SLIDING_WIN", fxp_w=4, unk="SLIDING_WIN", unk_w=2,
                         twin="FXP_UNKPT", scale=70) + ["-O2"], seed_off=2),
        # 3: W=8 portable mul/div, affine, everything binary
        Variant("w8pt_affine_bin", "gcc",
                ec_flags(w=8, cc=False, proj=False, fxp="BIN", unk="BIN", twin="BIN", scale=6) + ["-O2"], seed_off=3),
        # 4: smallest BN_BIT_LEN at which the 256-bit curves still load with W=64 (704; the 2*m + W = 576 the headers
        #    suggest makes ecdsa_curve_from_str() fail with EINVAL from 224 bit on): an unchecked overflow of an
        #    intermediate would surface here; curves above 256 bit fail to load and are skipped
        Variant("mincap704_w64cc_proj_inter", "gcc",
                ec_flags(w=64, fxp="COMB_1T", fxp_w=4, unk="COMB_1T", unk_w=2, twin="INTER", bitlen=704, scale=150) + ["-O2"], seed_off=4),
        # 5: W=64 portable mul/div, projective mixed, JOINT twin, clang
        Variant("w64pt_proj_joint", "clang",
                ec_flags(w=64, cc=False, fxp="COMB_1T", fxp_w=5, unk="BIN", twin="JOINT", scale=70) + ["-O2"], seed_off=5),
        # 6: W=32 portable, affine, twin = fxp + unkpt with comb tables
        #    (affine + EC_PF_TWIN_MULT_ALGO_INTER does not link: ec_point_affine_inter_twin_mult is not defined in elliptic_curve.h)
        Variant("w32pt_affine_fxpunk", "gcc",
                ec_flags(w=32, cc=False, proj=False, fxp="COMB_1T", fxp_w=3, unk="COMB_1T", unk_w=2, twin="FXP_UNKPT", scale=25) + ["-O3"], seed_off=6),
        # 7: W=8 with compiler double-digit arithmetic, projective, JOINT
        Variant("w8cc_proj_joint", "clang",
                ec_flags(w=8, cc=True, fxp="COMB_2T", fxp_w=4, unk="COMB_1T", unk_w=2, twin="JOINT", scale=15) + ["-O2"], seed_off=7),
        # 8: projective binary twin multiplication with precomputed doublings for the base point
        Variant("w64cc_proj_predbl_bin", "gcc",
                ec_flags(w=64, fxp="PRECALC_DBL", unk="BIN", twin="BIN", scale=70) + ["-O1"], seed_off=8),
    ]
    return vs


def variants(tier, seed):
    allv = c03_all()
    if tier == "thorough":
        return allv
    fixed = allv[:5]
    return fixed + _pick(allv[5:], 1, seed)


@prop("C03")
def c03():
    return dict(
        units=[dict(kind="rc", driver="C03_sig", shims=["ecdsa_shim.c"], variants=variants,
                    scale={"quick": 1.0, "thorough": 12.0})],
        level="exploration",
        rule=("rapidcheck cases = (curve of the 32 table entries, private key class, hash octets built per length class "
              "{1, bytes-1, bytes, bytes+1, 2*bytes, 20..64, octets(n)} x numeric class {0, 1, <n, n-1, n, n+1, all-ones, 2(n-1), "
              "2n-1, random >= n, random}, nonce class, signing entry {be, le, bn_t}, verifying entry, signer {library, reference, "
              "OpenSSL}, public key encoding, one mutation of the valid tuple out of 21 kinds). Every case signs (or takes a "
              "foreign signature), verifies the valid tuple with ecdsa_verify* and ecdsa_verify_priv_key*, then one mutated tuple; "
              "verdicts and (r, s) are compared with the SEC1/FIPS 186-4 and GOST R 34.10-2012 reference, OpenSSL and libgcrypt. "
              "Non-trivial: hash numerically >= n, or hash longer than the field, or a mutated / boundary tuple, or a signature "
              "from a foreign signer. distinct = fingerprints of non-trivial serialised cases (max over variants, variants use "
              "different seeds)."),
        assumptions=["GMP, OpenSSL 3 and libgcrypt are correct (they are cross-checked against each other and against published vectors at start)",
                     "private keys are in [1, n-1] and fit the byte API (priv_key_size <= bytes)",
                     "rnd_size >= bytes for signing (the short-rnd over-read is C09's memory half)",
                     "the *_le entry points denote the same integers / octet strings in reversed byte order",
                     "GOST hashes longer than the field are outside the standard: only the library's documented truncation is modelled there",
                     "the nonce mapping k = rnd < n ? rnd : (rnd mod (n-1)) + 1 documented in ecdsa.h is mirrored (any k in [1, n-1] is standard-conforming)"],
    )


MANIFEST = {"C03": dict(
    engine="rc-shim",
    technique="rapidcheck differential testing against a SEC1/FIPS 186-4/GOST R 34.10 reference over GMP, OpenSSL 3 ECDSA and libgcrypt GOST, over a build-variant matrix",
    text=("Generated-input search: signatures are produced by the library, by the reference signer and by OpenSSL on all 32 table curves "
          "(constructed hash classes incl. numerically >= n and longer than the field, constructed nonce classes, be/le/bn_t entry points), "
          "then valid and mutated (hash, r, s, key) tuples are presented to ecdsa_verify* and ecdsa_verify_priv_key*; accept/reject must equal "
          "the standard's verdict (reference + OpenSSL / libgcrypt second opinion), library signatures must equal the standard signer's output "
          "for the same nonce. 6 (quick) / 9 (thorough) build variants: both coordinate systems, all four twin-multiplication algorithms, "
          "digit widths 8/32/64, compiler and portable digit arithmetic, the suite's configuration, a minimum-capacity build."),
    design_ref="DESIGN.md section 4 C03, hypotheses H-EC-4, H-EC-5, H-EC-6",
    note=("Sampling, not proof. GOST parameter set id-GostR3410-2001-ParamSet-cc has only the standard-derived reference (unknown to OpenSSL and "
          "libgcrypt). Exceptional branches of the scalar multiplications are C02's subject. Failure injection inside the multiplications is not "
          "done; 'never success when an internal computation failed' is covered by the minimum-capacity variant and by the k = 0 / r = 0 / s = 0 "
          "classes only."),
)}
