# Orchestration for /verif checks: build variants from /repo's working tree, run
# drivers / fuzz targets in parallel, merge evidence, apply known findings.
import concurrent.futures as cf
import glob
import hashlib
import json
import os
import shutil
import subprocess
import sys
import time

VERIF = os.path.dirname(os.path.dirname(os.path.abspath(__file__)))
REPO = os.environ.get("VERIF_REPO", "/repo")
NCPU = int(os.environ.get("VERIF_NCPU", "0") or 0) or os.cpu_count() or 4  # VERIF_NCPU caps the process pool (development aid)

BASE_DEFS = ("-DHAVE_ACCEPT4 -DHAVE_EXPLICIT_BZERO -DHAVE_MEMMEM -DHAVE_MEMRCHR -DHAVE_PIPE2 "
             "-DHAVE_POSIX_SPAWN_FILE_ACTIONS_ADDCLOSEFROM_NP -DHAVE_PTHREAD_SETNAME_NP "
             "-DHAVE_REALLOCARRAY -DHAVE_SOCK_CLOEXEC -DHAVE_SOCK_NONBLOCK -DHAVE_STRNCASECMP "
             "-DLINUX -D_GNU_SOURCE -D__USE_GNU=1").split()
DRV_LIBS = ["-lrapidcheck", "-lgmpxx", "-lgmp", "-lgcrypt", "-lcrypto", "-lpthread"]


def sh(cmd, **kw):
    return subprocess.run(cmd, stdout=subprocess.PIPE, stderr=subprocess.STDOUT, text=True, **kw)


class Variant:
    def __init__(self, name, cc="gcc", cflags=(), san=False, seed_off=0, extra_src=(), scale=1.0):
        self.name = name
        self.scale = scale  # share of the tier's case budget this variant runs (slow builds get less)
        self.cc = cc
        self.cflags = list(cflags)
        self.san = san
        self.seed_off = seed_off
        self.extra_src = list(extra_src)

    def cxx(self):
        return "clang++" if self.cc.startswith("clang") else "g++"


def san_flags(cc, mode=True):
    # ASan always; UBSan subset that is a verdict per DESIGN 3.3
    ub = "bounds,object-size,pointer-overflow,null,shift-exponent,vla-bound,return"
    if mode == "asan_only":
        return ["-fsanitize=address", "-fno-omit-frame-pointer"]
    if cc.startswith("clang"):
        return ["-fsanitize=address", "-fsanitize=" + ub, "-fno-sanitize-recover=all", "-fno-omit-frame-pointer"]
    return ["-fsanitize=address", "-fno-omit-frame-pointer"]


def drv_obj(driver):
    return os.path.join(VERIF, "build", "drv", driver + ".o")


def build_driver(driver, force=False):
    src = os.path.join(VERIF, "drivers", driver + ".cpp")
    obj = drv_obj(driver)
    os.makedirs(os.path.dirname(obj), exist_ok=True)
    deps = [src] + glob.glob(os.path.join(VERIF, "drivers", "*.hpp")) + glob.glob(os.path.join(VERIF, "drivers", "*.inc")) \
        + glob.glob(os.path.join(VERIF, "shims", "*.h")) + glob.glob(os.path.join(VERIF, "refimpl", "*"))
    if not force and os.path.exists(obj) and all(os.path.getmtime(d) <= os.path.getmtime(obj) for d in deps if os.path.exists(d)):
        return (driver, 0, "")
    r = sh(["g++", "-std=gnu++17", "-O1", "-g", "-I" + os.path.join(VERIF, "refimpl"), "-c", src, "-o", obj])
    return (driver, r.returncode, r.stdout)


def build_variant_exe(rundir, driver, shim_srcs, v, extra_inc=(), link_extra=()):
    """compile the shim C sources with the variant's compiler/flags from REPO and link with the driver object"""
    objs = []
    for i, src in enumerate(list(shim_srcs) + v.extra_src):
        src_flags = []
        if isinstance(src, dict):  # {"src": ..., "cflags": [...]}: per-source extra flags (e.g. interposition -D for /repo sources only)
            src_flags = list(src.get("cflags", []))
            src = src["src"]
        if not os.path.isabs(src):
            src = os.path.join(VERIF, "shims", src) if not src.startswith("repo:") else os.path.join(REPO, src[5:])
        obj = os.path.join(rundir, "%s.%s.%d.o" % (driver, v.name, i))
        cmd = [v.cc] + BASE_DEFS + ["-I" + os.path.join(REPO, "include"), "-I" + os.path.join(VERIF, "shims")] \
            + ["-I" + x for x in extra_inc] + ["-g", "-w"] + v.cflags + src_flags + (san_flags(v.cc, v.san) if v.san else []) + ["-c", src, "-o", obj]
        r = sh(cmd)
        if r.returncode != 0:
            return None, "compile failed: %s\n%s" % (" ".join(cmd), r.stdout[-3000:])
        objs.append(obj)
    exe = os.path.join(rundir, "%s.%s.exe" % (driver, v.name))
    cmd = [v.cxx(), drv_obj(driver)] + objs + (san_flags(v.cc, v.san) if v.san else []) + list(link_extra) + DRV_LIBS + ["-o", exe]
    r = sh(cmd)
    if r.returncode != 0:
        return None, "link failed: %s\n%s" % (" ".join(cmd), r.stdout[-3000:])
    return exe, ""


def load_known():
    p = os.path.join(VERIF, "known_findings.json")
    if not os.path.exists(p):
        return []
    with open(p) as f:
        return json.load(f).get("findings", [])


class Result:
    def __init__(self, prop):
        self.prop = prop
        self.violations = []      # (replay_path, why)
        self.known_lines = []
        self.broken = []          # harness problems (exit 2)
        self.inconclusive = []
        self.variants = {}        # name -> parsed json
        self.notes = []
        self.fuzz = []            # per target dicts


def save_replay(prop, text, tag=""):
    d = os.path.join(VERIF, "replays", prop, "new")
    os.makedirs(d, exist_ok=True)
    h = hashlib.sha1(text.encode("utf-8", "replace")).hexdigest()[:12]
    p = os.path.join(d, "%s%s.case" % (tag, h))
    with open(p, "w") as f:
        f.write(text)
    return p


def run_rc_unit(res, rundir, unit, variants, tier, seed, known_preds, scale, timeout):
    """build all variants (parallel), replay saved cases, then run generated tier (parallel)."""
    driver = unit["driver"]
    exes = {}
    with cf.ThreadPoolExecutor(max_workers=NCPU) as ex:
        futs = {ex.submit(build_variant_exe, rundir, driver, unit["shims"], v, unit.get("inc", ()), unit.get("link", ())): v for v in variants}
        for fu in cf.as_completed(futs):
            v = futs[fu]
            exe, err = fu.result()
            if exe is None:
                res.broken.append("%s/%s: %s" % (driver, v.name, err))
            else:
                exes[v.name] = exe
    if not exes:
        return
    env = dict(os.environ)
    # quarantine / stack-depot bounded: long thorough runs otherwise grow to several GB per sanitised variant
    env["ASAN_OPTIONS"] = "detect_leaks=0:abort_on_error=1:handle_abort=0:allocator_may_return_null=1:detect_stack_use_after_return=1:quarantine_size_mb=64:malloc_context_size=12"
    env["UBSAN_OPTIONS"] = "print_stacktrace=1:halt_on_error=1"
    vorder = [v for v in variants if v.name in exes]
    # which checks does this driver own
    r = sh([exes[vorder[0].name], "--list"], env=env)
    owned = set(r.stdout.split())
    kn = ",".join(sorted(known_preds))

    # ---- replay tier: every saved case of this property owned by this driver, on every variant
    cases = sorted(glob.glob(os.path.join(VERIF, "replays", res.prop, "*.case")))
    jobs = []
    for cpath in cases:
        with open(cpath) as f:
            head = f.readline().strip()
        chk = head.split("=", 1)[1] if head.startswith("check=") else ""
        if chk not in owned:
            continue
        for v in vorder:
            jobs.append((cpath, v))

    def do_replay(job, with_known=True):
        cpath, v = job
        cmd = [exes[v.name], "--replay", cpath] + (["--known", kn] if (kn and with_known) else [])
        e = dict(env)
        e["PBT_REPLAY_ALARM"] = "120"
        try:
            r = subprocess.run(cmd, stdout=subprocess.PIPE, stderr=subprocess.STDOUT, text=True, env=e, timeout=300)
            return (cpath, v.name, r.returncode, r.stdout[-800:])
        except subprocess.TimeoutExpired:
            return (cpath, v.name, -99, "timeout")
    replay_stats = {"cases": len(set(j[0] for j in jobs)), "runs": len(jobs), "failed": 0}
    with cf.ThreadPoolExecutor(max_workers=NCPU) as ex:
        failed_paths = {}
        for cpath, vn, rc, out in ex.map(do_replay, jobs):
            if rc == 0:
                continue
            if rc == 2:
                res.broken.append("replay %s on %s: %s" % (cpath, vn, out))
                continue
            failed_paths.setdefault(cpath, (vn, out))
        for cpath, (vn, out) in failed_paths.items():
            replay_stats["failed"] += 1
            res.violations.append((cpath, "saved case fails on %s: %s" % (vn, out.strip().splitlines()[-1] if out.strip() else "crash")))
    res.notes.append({"unit": driver, "replay": replay_stats})

    # ---- known findings: reproduce without the exclusion predicate
    for kf in load_known():
        if kf.get("property") != res.prop or kf.get("status") != "known":
            continue
        rp = os.path.join(VERIF, kf["replay"])
        if not os.path.exists(rp):
            res.broken.append("known finding %s: replay file missing" % kf.get("id"))
            continue
        with open(rp) as f:
            head = f.readline().strip()
        chk = head.split("=", 1)[1] if head.startswith("check=") else ""
        if chk not in owned:
            continue
        reproduced = False
        # "the finding is still there" is an existential claim: schedule-dependent cases (thread-pool histories) get
        # several attempts per variant; the first failing run settles it
        for attempt in range(int(kf.get("replay_attempts", 1))):
            for v in vorder:
                cpath, vn, rc, out = do_replay((rp, v), with_known=False)
                if rc not in (0, 2):
                    reproduced = True
                    break
            if reproduced:
                break
        if reproduced:
            res.known_lines.append("KNOWN-FINDING: property=%s %s" % (res.prop, kf["what"]))
        else:
            res.notes.append({"known_finding_not_reproduced": kf.get("id")})

    # ---- generated tier
    outdir = os.path.join(rundir, "out-" + driver)
    os.makedirs(outdir, exist_ok=True)

    def do_run(v):
        cmd = [exes[v.name], "--out", outdir, "--variant", v.name, "--seed", str(seed * 1000003 + v.seed_off + 1),
               "--scale", str(scale * getattr(v, "scale", 1.0) * unit.get("scale", {}).get(tier, 1.0))] + (["--known", kn] if kn else [])
        t0 = time.time()
        try:
            r = subprocess.run(cmd, stdout=subprocess.PIPE, stderr=subprocess.STDOUT, text=True, env=env, timeout=timeout)
            return (v, r.returncode, r.stdout[-6000:], time.time() - t0)
        except subprocess.TimeoutExpired as e:
            return (v, -99, (e.stdout or "")[-2000:] if isinstance(e.stdout, str) else "", time.time() - t0)

    with cf.ThreadPoolExecutor(max_workers=NCPU) as ex:
        for v, rc, out, dt in ex.map(do_run, vorder):
            jpath = os.path.join(outdir, v.name + ".json")
            data = None
            if os.path.exists(jpath):
                try:
                    with open(jpath) as f:
                        data = json.load(f)
                except Exception as e:  # noqa
                    res.broken.append("%s/%s: bad stats json: %s" % (driver, v.name, e))
            if data is not None:
                data["wall_s"] = round(dt, 2)
                res.variants[driver + "/" + v.name] = data
            if rc == -99:
                res.inconclusive.append("%s/%s: time budget exhausted after %.0fs" % (driver, v.name, dt))
                continue
            fails = sorted(glob.glob(os.path.join(outdir, v.name + ".*.fail")))
            crashes = sorted(glob.glob(os.path.join(outdir, v.name + ".*.crash")))
            for fp in fails:
                with open(fp) as f:
                    text = f.read()
                why = [l for l in text.splitlines() if l.startswith("#why=")]
                res.violations.append((save_replay(res.prop, text), "%s/%s %s" % (driver, v.name, why[0][5:] if why else "")))
            if crashes and not fails:
                for fp in crashes:
                    with open(fp) as f:
                        text = f.read()
                    lines = out.strip().splitlines()
                    # the most telling lines first: sanitizer verdict / fatal signal reported by the driver, then the tail
                    key = [l.strip() for l in lines if ("ERROR: AddressSanitizer" in l or "SUMMARY:" in l or "runtime error" in l
                                                        or "fatal signal" in l or "signal " in l.lower() and "caught" in l.lower())][:3]
                    kind = [l[7:] for l in text.splitlines() if l.startswith("#crash=")]
                    tail = " | ".join(([("fatal " + kind[0])] if kind else []) + key + [l.strip() for l in lines[-6:]])
                    res.violations.append((save_replay(res.prop, text, "crash-"), "%s/%s crashed while running the saved case: %s" % (driver, v.name, tail[:700])))
            if rc != 0 and not fails and not crashes:
                res.broken.append("%s/%s: exit %d without a failing case\n%s" % (driver, v.name, rc, out[-1500:]))


# ---------------------------------------------------------------- libFuzzer engine
FUZZ_CFLAGS = ["-g", "-O1", "-fno-omit-frame-pointer", "-fsanitize=fuzzer,address,undefined",
               "-fsanitize=bounds,object-size,pointer-overflow,null,shift-exponent,vla-bound,return",
               "-fno-sanitize=alignment,signed-integer-overflow,shift-base,function,vptr,enum,bool,float-cast-overflow,float-divide-by-zero,integer-divide-by-zero,nonnull-attribute,returns-nonnull-attribute,unreachable,builtin",
               "-fno-sanitize-recover=all", "-w"]


def build_fuzz_target(rundir, t):
    """t: dict(name, src, extra_src=[...], cflags=[...]) ; C or C++ source under /verif/fuzz"""
    src = os.path.join(VERIF, "fuzz", t["src"])
    cxx = src.endswith(".cpp") or src.endswith(".cc")
    objs = []
    inc = ["-I" + os.path.join(REPO, "include"), "-I" + os.path.join(VERIF, "shims"), "-I" + os.path.join(VERIF, "fuzz"),
           "-I" + os.path.join(VERIF, "refimpl")]
    for i, es in enumerate(t.get("extra_src", [])):
        esrc = os.path.join(REPO, es[5:]) if es.startswith("repo:") else os.path.join(VERIF, es)
        obj = os.path.join(rundir, "fz.%s.%d.o" % (t["name"], i))
        fl = [f.replace("fuzzer,address", "fuzzer-no-link,address") for f in FUZZ_CFLAGS]
        r = sh(["clang"] + BASE_DEFS + inc + fl + t.get("cflags", []) + ["-c", esrc, "-o", obj])
        if r.returncode != 0:
            return None, "compile %s failed:\n%s" % (esrc, r.stdout[-3000:])
        objs.append(obj)
    exe = os.path.join(rundir, "fz.%s.exe" % t["name"])
    cmd = (["clang++", "-std=gnu++17"] if cxx else ["clang"]) + BASE_DEFS + inc + FUZZ_CFLAGS + t.get("cflags", []) + [src] + objs \
        + t.get("libs", []) + ["-o", exe]
    r = sh(cmd)
    if r.returncode != 0:
        return None, "build of fuzz target %s failed:\n%s" % (t["name"], r.stdout[-3000:])
    return exe, ""


def run_lf_unit(res, rundir, unit, tier, seed, known_preds, scale):
    """unit: dict(kind='lf', targets=[dict(name, src, extra_src, cflags, runs={'quick':N,'thorough':N}, max_len, dict, jobs={'quick':k,...})])"""
    targets = unit["targets"]
    exes = {}
    with cf.ThreadPoolExecutor(max_workers=NCPU) as ex:
        for t, (exe, err) in zip(targets, ex.map(lambda t: build_fuzz_target(rundir, t), targets)):
            if exe is None:
                res.broken.append(err)
            else:
                exes[t["name"]] = exe
    env = dict(os.environ)
    env["ASAN_OPTIONS"] = "detect_leaks=0:abort_on_error=0:allocator_may_return_null=1:detect_stack_use_after_return=1"
    env["UBSAN_OPTIONS"] = "print_stacktrace=1:halt_on_error=1"
    env["VERIF_KNOWN"] = ",".join(sorted(known_preds))
    jobs = []
    for t in targets:
        if t["name"] not in exes:
            continue
        # replay tier
        saved = sorted(glob.glob(os.path.join(VERIF, "replays", res.prop, "fuzz-" + t["name"], "*")))
        saved = [p for p in saved if os.path.isfile(p)]
        for i in range(0, len(saved), 50):
            chunk = saved[i:i + 50]
            r = sh([exes[t["name"]], "-timeout=20"] + chunk, env=env)
            if r.returncode != 0:
                # find which one
                for pth in chunk:
                    r1 = sh([exes[t["name"]], "-timeout=20", pth], env=env)
                    if r1.returncode != 0:
                        res.violations.append((pth, "fuzz target %s: saved input fails: %s" % (t["name"], r1.stdout[-700:])))
        k = t.get("jobs", {}).get(tier, 1 if tier == "quick" else 4)
        for j in range(k):
            jobs.append((t, j))
    # known findings for fuzz targets: replay stored input with the exclusion off
    for kf in load_known():
        if kf.get("property") != res.prop or kf.get("status") != "known" or not kf.get("fuzz_target"):
            continue
        if kf["fuzz_target"] not in exes:
            continue
        e2 = dict(env)
        e2["VERIF_KNOWN"] = ""
        r = sh([exes[kf["fuzz_target"]], "-timeout=20", os.path.join(VERIF, kf["replay"])], env=e2)
        if r.returncode != 0:
            res.known_lines.append("KNOWN-FINDING: property=%s %s" % (res.prop, kf["what"]))
        else:
            res.notes.append({"known_finding_not_reproduced": kf.get("id")})

    def campaign(job):
        t, j = job
        name = t["name"]
        cdir = os.path.join(rundir, "corpus-%s-%d" % (name, j))
        adir = os.path.join(rundir, "art-%s-%d" % (name, j)) + "/"
        os.makedirs(cdir, exist_ok=True)
        os.makedirs(adir, exist_ok=True)
        seeds = os.path.join(VERIF, "corpus", res.prop, name)
        # half of the jobs start from the empty corpus, half from the seed corpus (guidance: try both)
        if os.path.isdir(seeds) and (j % 2 == 0):
            for f in os.listdir(seeds):
                shutil.copy(os.path.join(seeds, f), os.path.join(cdir, f))
        runs = int(t.get("runs", {}).get(tier, 200000 if tier == "quick" else 5000000) * scale)
        stats = os.path.join(rundir, "stats-%s-%d.json" % (name, j))
        e = dict(env)
        e["VERIF_FUZZ_STATS"] = stats
        cmd = [exes[name], "-seed=%d" % (seed * 7919 + j + 1), "-runs=%d" % runs, "-timeout=%d" % t.get("timeout", 10),
               "-max_len=%d" % t.get("max_len", 2048), "-artifact_prefix=" + adir, "-print_final_stats=1", "-rss_limit_mb=3000",
               "-max_total_time=%d" % t.get("max_time", {}).get(tier, 300 if tier == "quick" else 3600)]
        d = t.get("dict")
        if d:
            cmd.append("-dict=" + os.path.join(VERIF, "fuzz", d))
        cmd.append(cdir)
        t0 = time.time()
        r = sh(cmd, env=e)
        out = r.stdout
        execs = 0
        for line in out.splitlines():
            if "stat::number_of_executed_units" in line:
                execs = int(line.split(":")[-1].strip())
        arts = sorted(glob.glob(adir + "*"))
        ncorp = len(os.listdir(cdir))
        samples = []
        for f in sorted(os.listdir(cdir))[:2]:
            with open(os.path.join(cdir, f), "rb") as fh:
                samples.append(fh.read(96).hex())
        st = None
        if os.path.exists(stats):
            try:
                with open(stats) as fh:
                    st = json.load(fh)
            except Exception:
                st = None
        return dict(target=name, job=j, rc=r.returncode, execs=execs, corpus=ncorp, arts=arts, tail=out[-2500:], wall=time.time() - t0,
                    samples=samples, stats=st)

    agg = {}
    with cf.ThreadPoolExecutor(max_workers=NCPU) as ex:
        for c in ex.map(campaign, jobs):
            a = agg.setdefault(c["target"], dict(target=c["target"], execs=0, distinct=0, samples=[], jobs=0, deep=0, labels={}))
            a["execs"] += c["execs"]
            a["distinct"] = max(a["distinct"], c["corpus"])
            a["jobs"] += 1
            if c["stats"]:
                a["deep"] += c["stats"].get("deep", 0)
                for l, n in c["stats"].get("labels", {}).items():
                    a["labels"][l] = a["labels"].get(l, 0) + n
            if len(a["samples"]) < 3:
                a["samples"] += c["samples"][:1]
            bad = [p for p in c["arts"] if os.path.basename(p).startswith(("crash-", "leak-"))]
            noise = [p for p in c["arts"] if not os.path.basename(p).startswith(("crash-", "leak-"))]
            tmo = [p for p in noise if os.path.basename(p).startswith("timeout-")]
            for pth in tmo:
                # "terminates" is part of C12/C13: a timeout counts only if it reproduces 3 times
                n_rep = 0
                for _ in range(3):
                    r1 = sh([exes[c["target"]], "-timeout=%d" % (2 * 10), pth], env=env)
                    if r1.returncode != 0:
                        n_rep += 1
                if n_rep == 3:
                    bad.append(pth)
                else:
                    res.inconclusive.append("fuzz %s: timeout artifact did not reproduce 3/3" % c["target"])
            for pth in bad:
                d = os.path.join(VERIF, "replays", res.prop, "new")
                os.makedirs(d, exist_ok=True)
                dst = os.path.join(d, "fuzz-%s-%s" % (c["target"], os.path.basename(pth)))
                shutil.copy(pth, dst)
                res.violations.append((dst, "fuzz target %s: %s" % (c["target"], c["tail"][-900:])))
            if c["rc"] != 0 and not bad and not tmo:
                res.broken.append("fuzz %s job %d exit %d without artifact:\n%s" % (c["target"], c["job"], c["rc"], c["tail"][-1200:]))
    res.fuzz += list(agg.values())


def confirm_violations(res):
    """keep only distinct replay paths"""
    seen = set()
    out = []
    for p, why in res.violations:
        if p in seen:
            continue
        seen.add(p)
        out.append((p, why))
    res.violations = out


def write_evidence(res, tier, seed, level, rule, assumptions, wall, extra=None):
    evals = 0
    per_check = {}
    labels = {}
    excluded = {}
    samples = []
    exhaustive = False
    for vn, data in sorted(res.variants.items()):
        for cn, c in data.get("checks", {}).items():
            evals += c.get("evaluations", 0)
            key = vn.split("/")[0] + "/" + cn
            per_check[key] = max(per_check.get(key, 0), c.get("distinct_nontrivial", 0))
            for l, n in c.get("labels", {}).items():
                labels[key + ":" + l] = labels.get(key + ":" + l, 0) + n
            for l, n in c.get("excluded_by_known_finding", {}).items():
                excluded[l] = excluded.get(l, 0) + n
            if len(samples) < 12:
                for s in c.get("samples", [])[:2]:
                    samples.append({"check": key, "variant": vn, "case": s})
            exhaustive = exhaustive or c.get("exhaustive", False)
    for fz in res.fuzz:
        evals += fz.get("execs", 0)
        per_check["fuzz/" + fz["target"]] = fz.get("distinct", 0)
        for s in fz.get("samples", [])[:2]:
            samples.append({"check": "fuzz/" + fz["target"], "case": s})
    distinct = sum(per_check.values())
    cov = {
        "evaluations": int(evals),
        "distinct_nontrivial": int(distinct),
        "rule": rule,
        "samples": samples[:16] if samples else ["(no case was executed)"],
        "per_check_distinct_nontrivial": per_check,
        "labels": labels,
        "excluded_by_known_finding": excluded,
        "variants": sorted(res.variants.keys()),
        "variant_wall_s": {k: v.get("wall_s") for k, v in res.variants.items()},
        "inconclusive": res.inconclusive,
        "fuzz": res.fuzz,
        "notes": res.notes,
        "partially_exhaustive_subcheck": exhaustive,
    }
    if extra:
        cov.update(extra)
    ev = {
        "property_id": res.prop,
        "tier": tier,
        "seed": int(seed),
        "level": level,
        "coverage": cov,
        "assumptions": assumptions,
        "wall_s": round(wall, 2),
        "violations": len(res.violations),
    }
    os.makedirs(os.path.join(VERIF, "evidence"), exist_ok=True)
    p = os.path.join(VERIF, "evidence", res.prop + ".json")
    with open(p, "w") as f:
        json.dump(ev, f, indent=1)
    return ev


def finish(res):
    confirm_violations(res)
    for l in res.known_lines:
        print(l)
    for b in res.broken:
        print("CHECK-BROKEN: " + b.replace("\n", "\n    "), file=sys.stderr)
    for i in res.inconclusive:
        print("INCONCLUSIVE: " + i)
    if res.violations:
        for p, why in res.violations:
            print("VIOLATION property=%s replay=%s" % (res.prop, p))
            print("  reason: " + why.replace("\n", " | ")[:1000])
        return 1
    if res.broken:
        return 2
    return 0
