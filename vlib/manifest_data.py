HOOKS = {
    "guard": "LIBLCB_VERIF",
    "enable": "-DLIBLCB_VERIF when compiling src/threadpool/*.c for the thread-pool harness (no other check needs source hooks)",
    "baseline_off_cmd": "cmake -G Ninja -S /repo -B /repo/_build -DENABLE_LIBLCB_TESTS=1 && cmake --build /repo/_build && ctest --test-dir /repo/_build -j8 --timeout 900",
    "source_commits": ["b70da2c"],
    "add_only": True,
}
ENGINES_SERVE = {}
ENGINES = [
    {"name": "rc-shim", "path": "drivers/ + shims/ + vlib/core.py",
     "serves_properties": ["C01"],
     "kind_free_text": "rapidcheck properties (C++) over a flat C shim ABI; the shim is rebuilt from /repo for every build variant on every run; oracle = independent reference (GMP, libgcrypt, OpenSSL, spec-derived reference code)"},
    {"name": "rc-state", "path": "drivers/ + shims/ + vlib/core.py", "serves_properties": [],
     "kind_free_text": "rapidcheck command-sequence (history) generation against an in-memory model, invariant checked after every command"},
    {"name": "lf", "path": "fuzz/ + vlib/core.py (run_lf_unit)", "serves_properties": [],
     "kind_free_text": "libFuzzer targets (clang -fsanitize=fuzzer,address,undefined) with structure-aware decoding and semantic postconditions inside the target"},
    {"name": "tp-sched", "path": "drivers/tp_*.cpp + shims/tp_*.c", "serves_properties": [],
     "kind_free_text": "thread-pool harness: generated scenarios + schedule plan at LIBLCB_VERIF points + link-time fault wrappers; invariants over recorded callback histories"},
]
NOTES = ("Exit 0 = held on everything explored; exit 1 + VIOLATION line = counterexample saved under replays/<id>/new/; "
         "exit 2 = the check itself is unusable (build failure), never reported as a violation. known_findings.json lists fixed/known findings.")
# properties whose check is finished, passes on the unchanged tree and is therefore claimed in MANIFEST.json
CLAIMED = ["C01", "C02", "C03", "C04", "C05", "C06", "C07", "C08", "C09", "C10", "C11", "C12", "C13", "C14", "C15", "C16", "C17", "C18", "C19", "C20"]
NOT_APPLICABLE = {}
CHECKS = {
    "C01": dict(
        engine="rc-shim",
        technique="rapidcheck differential testing against GMP over a build-variant matrix, plus exhaustive enumeration of one-digit operands at W=8",
        text=("Generated-input search: every listed big-number operation is executed on edge-biased operands (capacity edges, carry chains, "
              "normalisation edges, junk in stale storage, aliasing) in 11 (quick) / 56 (thorough) build variants (digit width x CC mul/div x "
              "gcc/clang x -O) and compared with GMP; success must imply the exact value, errors must be justified by the code's capacity rule."),
        design_ref="DESIGN.md section 4 C01",
        note=("Sampling, not proof. Trusts GMP. Shift counts, reduced modular operands, odd/prime moduli and even-length hex strings are the asserted "
              "domain (DESIGN 4 C01); self-declared broken paths (Barrett, bn_egcd, bn_mod_inv3, bn_sqrt4) are excluded by the property."),
    ),
}
