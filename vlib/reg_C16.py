from .registry import prop
from .tp_common import TP_CORE, tp_variants, repo_src


@prop("C16")
def c16():
    shims = ["tp_common.c", "tp_task.c"] + TP_CORE + [repo_src("src/threadpool/threadpool_task.c"), "repo:src/net/socket.c",
             "repo:src/net/socket_options.c", "repo:src/net/socket_address.c", "repo:src/net/utils.c", "repo:src/utils/sys.c"]
    return dict(
        units=[dict(kind="rc", driver="C16_task", shims=shims, variants=tp_variants, scale={"quick": 1.0, "thorough": 10.0})],
        level="exploration",
        rule=("rapidcheck scenarios on an AF_UNIX stream socket pair owned by a 1-thread pool: receive or send task (tp_task_sr_handler) or "
              "readiness notifier, buffer 8..2048 bytes with a generated window (offset, transfer_size) inside it, persistent or dispatch "
              "event flags, callback-after-every-read on/off, timeout none/120-200 ms/2 s, first transfer inside tp_task_start_ex or scheduled, "
              "payload fragmented into 1-9 arrivals with short or long (5 x timeout) pauses, data queued before the start, peer stays open / "
              "closes / half-closes, callback policy (continue until full/EOF, or stop / destroy / disable inside the first callback), window "
              "re-arming, small SO_SNDBUF for send tasks, schedule plan, and epoll_ctl/timerfd fault plan. Non-trivial: >=2 callbacks, window "
              "not at the buffer start, EOF/timeout reported, stop from inside a callback, or a fault. distinct = scenario fingerprints."),
        assumptions=["kernel fragmentation is influenced (chunked writes, small SO_SNDBUF), not controlled",
                     "the harness clock only gates the 'no timeout while data keeps arriving' assertion (made when the measured run is below a third of the timeout)",
                     "data tasks use persistent or dispatch event flags as the in-tree callers do; one-shot is exercised through the notifier",
                     "accept/connect/connect_ex and datagram receiver handlers are not covered"],
    )


MANIFEST = {"C16": dict(
    engine="tp-sched",
    technique="rapidcheck I/O-task histories on real sockets with pattern payloads, guard bytes, cursor model, fence-sequenced silence checks and descriptor accounting",
    text=("Generated receive/send/notify task histories run on the real pool; payload bytes identify their stream offset, the buffer is "
          "guarded on both sides, and every callback records error/eof/transferred/cursors. Checked: bytes in order inside the window only, "
          "transferred counts add up, cursor evolution, EOF once, timeouts when idle and not while active, re-arming on CONTINUE, no callback "
          "after stop/destroy/disable on the owner thread, every library-created descriptor closed."),
    design_ref="DESIGN.md section 4 C16",
    note="Stream socket pairs only (no TCP accept/connect handlers, no datagram receiver); arrival fragmentation is influenced, not controlled.",
)}
