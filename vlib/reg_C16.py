from .registry import prop
from .tp_common import TP_CORE, tp_variants, repo_src

# second unit only: every descriptor the socket layer creates for the library (socket / accept4) enters the exact resource table, and
# every connect() the library issues is seen by the harness (connect_ex attempt order). Harness code keeps the real functions.
SOCK_INTERPOSE = ["-Dsocket=verif_socket", "-Daccept4=verif_accept4", "-Dconnect=verif_connect", "-Dclose=verif_close"]


@prop("C16")
def c16():
    # first unit: recv() of the task code is a harness point too (a scenario can make the next fragment arrive between two reads of one handler run)
    task_src = dict(repo_src("src/threadpool/threadpool_task.c"))
    task_src["cflags"] = list(task_src["cflags"]) + ["-Drecv=verif_recv"]
    shims = ["tp_common.c", "tp_task.c"] + TP_CORE + [task_src, "repo:src/net/socket.c",
             "repo:src/net/socket_options.c", "repo:src/net/socket_address.c", "repo:src/net/utils.c", "repo:src/utils/sys.c"]
    shims_conn = ["tp_common.c", "tp_conn.c"] + TP_CORE + [repo_src("src/threadpool/threadpool_task.c"),
                  {"src": "repo:src/net/socket.c", "cflags": SOCK_INTERPOSE},
                  "repo:src/net/socket_options.c", "repo:src/net/socket_address.c", "repo:src/net/utils.c", "repo:src/utils/sys.c"]
    return dict(
        units=[dict(kind="rc", driver="C16_task", shims=shims, variants=tp_variants, scale={"quick": 1.0, "thorough": 10.0}),
               dict(kind="rc", driver="C16_conn", shims=shims_conn, variants=tp_variants, scale={"quick": 1.0, "thorough": 10.0})],
        level="exploration",
        rule=("Unit C16_task: rapidcheck scenarios on an AF_UNIX stream socket pair owned by a 1-thread pool: receive or send task (tp_task_sr_handler) or "
              "readiness notifier, buffer 8..2048 bytes with a generated window (offset, transfer_size) inside it, persistent or dispatch "
              "event flags, callback-after-every-read on/off, timeout none/120-200 ms/2 s, first transfer inside tp_task_start_ex or scheduled, "
              "payload fragmented into 1-9 arrivals with short or long (5 x timeout) pauses, data queued before the start, peer stays open / "
              "closes / half-closes, callback policy (continue until full/EOF, stop / destroy / disable inside the first callback, or - dispatch tasks - "
              "decline without stopping, stay paused longer than the timeout, re-enable), a dup()ed descriptor with CLOSE_ON_DESTROY, windows that reach "
              "past the buffer (must be refused by the direct first transfer), fragments written from inside the library's recv() so that they arrive "
              "between two reads of one handler run, window "
              "re-arming, small SO_SNDBUF for send tasks, schedule plan, and epoll_ctl/timerfd fault plan. Non-trivial: >=2 callbacks, window "
              "not at the buffer start, EOF/timeout reported, stop from inside a callback, or a fault. "
              "Check file_tasks (same unit): tp_task_rw_handler direct transfers on in-memory files - reads across the end of file, writes that grow the file "
              "or run into a sealed size; exactly one report, bytes / cursors / file content exact. "
              "Check task_scripts (same unit): phase scripts on one receive task (persistent / dispatch, callback-after-every-read on/off, timeout none/60/100 ms, "
              "window anywhere in a 32..2048 byte buffer): peer writes smaller than the window (silent partial progress), waits for a timeout, tp_task_stop + "
              "tp_task_start with a new window on the owning thread, TP_TASK_CB_NONE answers to a timeout or to the k-th data report (the task is paused), data "
              "arriving while paused, tp_task_enable(1), tp_task_stop + tp_task_restart; optionally the task is created bare and configured through the accessors "
              "(tp_task_ident_set / tp_cb_func_set / flags_add / udata_set, getters compared); at the end the stream goes on, or the peer resets the connection with 1-3 bytes "
              "still queued (ECONNRESET reported exactly once). Oracle over the ordered history: reported count == bytes moved "
              "into the window since the previous report / (re)start and those bytes are the next bytes of the stream, no report between a NONE answer and the "
              "re-enable / restart, a paused task does not read (FIONREAD at the re-enable), the next full window is reported, nothing after destroy. "
              "Unit C16_conn, check pkt_histories: datagram receiver (tp_task_pkt_rcvr_create) on an AF_UNIX SOCK_DGRAM pair or UDP 127.0.0.1, "
              "1-10 datagrams of 0..buffer+40 bytes whose bytes encode (datagram, offset), sent before/after the start in bursts, with short pauses, "
              "waits for delivery or waits for a timeout report; buffer 16..512 with the in-tree initial window, a busy prefix or an arbitrary window; "
              "callback resets the cursors as dns_resolv.c/radius_client.c do, re-arms the initial window, or accumulates; stop/destroy/disable/"
              "non-CONTINUE in the k-th callback; timeout none/60-100 ms/2 s; CLOSE_ON_DESTROY. Oracle: exact buffer image (guards included) and "
              "cursors per callback, transferred = min(size, window) (recvfrom truncation), exactly once and in order, peer address, timeouts "
              "never early and reported when awaited, silence after stop/destroy, descriptor/allocation balance. "
              "Check conn_histories: accept tasks (tp_task_accept_create / tp_task_bind_accept_create with skt_opts; AF_UNIX path or TCP 127.0.0.1:0; "
              "0-8 clients that send an id, connected before/after the start, early closes, stale socket file with/without REUSEADDR, failing "
              "accept4), connect tasks (listening / refusing / never-answering peer, destroy inside the callback) and tp_task_connect_ex_create "
              "(1-4 addresses: TCP refusing until opened after n attempts, AF_UNIX path that appears after n attempts, silent listener; max_tries "
              "0-3, retry_delay 0-30 ms, time_limit, ROUND_ROBIN, INITIAL_DELAY, CB_AFTER_EVERY_READ, stop in the k-th failure report, destroy "
              "mid-flight, invalid argument classes, failing socket()). Oracle: one accept callback per client with a distinct non-blocking socket "
              "that yields the client's id and its peer port; connect reports exactly once with 0/ECONNREFUSED/ETIMEDOUT after the task was stopped; "
              "connect_ex attempts (seen at the interposed connect()) follow the documented order exactly, success names the first accepting address, "
              "terminal -1 after max_tries x addresses attempts (or not before the time limit), failure reports only with the flag and one per failed "
              "attempt, delays never shorter than configured, no callback inside create, every library-created descriptor closed unless handed over. "
              "Non-trivial (both checks): >=2 datagrams/connections, stop/destroy from inside a callback, a timeout/refusal/retry observed, or a fault. "
              "distinct = scenario fingerprints (per-check maximum over variants)."),
        assumptions=["kernel fragmentation is influenced (chunked writes, small SO_SNDBUF), not controlled",
                     "the harness clock only gates the 'no timeout while data keeps arriving' assertion (made when the measured run is below a third of the timeout) "
                     "and bounds timers from below (a timeout / retry delay / time limit is never reported earlier than configured); no latency is asserted",
                     "data tasks use persistent or dispatch event flags as the in-tree callers do; one-shot is exercised through the notifier and the connect tasks",
                     "AF_UNIX datagram pairs are reliable and ordered (exact equality asserted); on UDP loopback an incomplete delivery is counted, not judged",
                     "datagram callbacks always leave a non-empty window (a zero-length recvfrom() consumes the datagram: caller precondition); zero-length "
                     "datagrams may be dropped silently (what the code does) or reported with size 0",
                     "TCP cases are skipped and counted when 127.0.0.1 cannot be bound; 'never answering' is a backlog-0 listener with a filled accept queue and "
                     "only 'at most one report, ETIMEDOUT not early' is asserted for it",
                     "connect_ex with addrs_count = 0 or a NULL callback is not generated (unchecked caller preconditions); tp_task_connect_send_create and "
                     "tp_task_bind_accept_multi_create are not covered",
                     "with an injected epoll_ctl/timerfd/socket fault only clean failure is asserted (no leak, no callback after a failed start or after stop)"],
    )


MANIFEST = {"C16": dict(
    engine="tp-sched",
    technique=("rapidcheck I/O-task histories on real sockets with pattern payloads, guard bytes, cursor model, fence-sequenced silence checks and "
               "descriptor accounting; second unit: datagram / accept / connect / connect_ex histories with the socket layer interposed "
               "(exact descriptor table, connect() attempt log) and a reference model of the documented connect_ex retry order"),
    text=("Generated receive/send/notify task histories run on the real pool; payload bytes identify their stream offset, the buffer is "
          "guarded on both sides, and every callback records error/eof/transferred/cursors. Checked: bytes in order inside the window only, "
          "transferred counts add up, cursor evolution, EOF once, timeouts when idle and not while active, re-arming on CONTINUE, no callback "
          "after stop/destroy/disable on the owner thread, every library-created descriptor closed. A second driver covers the datagram receiver "
          "(exact buffer image per datagram, truncation to the window, exactly-once in-order delivery on AF_UNIX pairs, UDP loopback), accept tasks "
          "(one callback per client, socket identity by a client id, non-blocking, peer address, bind over stale socket files, failing accept), "
          "connect tasks (success / ECONNREFUSED / timeout exactly once, task stopped before the callback) and connect_ex (attempt order, retry "
          "counts, round robin, delays and time limit bounded from below, per-attempt reports, argument validation, descriptor balance on every path)."),
    design_ref="DESIGN.md section 4 C16",
    note=("Arrival fragmentation is influenced, not controlled. tp_task_connect_send_create and tp_task_bind_accept_multi_create are not covered. "
          "Two connect_ex defects found by the second unit are guarded by predicates connect_ex_retry_timer_survives_stop_when_timeout_is_0 and "
          "connect_ex_address_index_reset_by_task_start (notes/C16_conn.md)."),
)}
