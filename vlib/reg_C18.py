# C18 -- socket-address text and prefix arithmetic agree with the standard forms
from .core import Variant
from .registry import prop


def variants(tier, seed):
    return [
        Variant("gccO2", "gcc", ["-O2"], seed_off=0),
        Variant("clangO2", "clang", ["-O2"], seed_off=1),
        Variant("gccO0", "gcc", ["-O0"], seed_off=2),
        Variant("clangO1_asan", "clang", ["-O1"], san=True, seed_off=3),
    ]


@prop("C18")
def c18():
    return dict(
        units=[dict(kind="rc", driver="C18_sa",
                    shims=["sa_shim.c", "repo:src/net/socket_address.c", "repo:src/net/utils.c"],
                    variants=variants, scale={"quick": 1.0, "thorough": 12.0})],
        level="exploration",
        rule=("rapidcheck cases over a C shim, four build variants. fmt: (family, address from boundary octets / every IPv6 zero-run shape / "
              "embedded IPv4 / random, port from the power-of-ten neighbourhood list or random, AF_UNIX path, function with or without port, "
              "buffer size 0..need+1 and STR_ADDR_LEN) -> text compared with refimpl/ip_text.hpp (RFC 5952), size, guard bytes, round trip "
              "through the matching parser. parse: documented spellings (accept set, expected sockaddr), constructed-invalid strings that no "
              "documented reading accepts (reject set), label-only probes. prefix: len<->mask, truncation, membership against unsigned "
              "__int128. ports_enum enumerates all 65536 ports for 4 (quick) / 32 (thorough) addresses per family; prefix_enum all lengths. "
              "Non-trivial: IPv6 through the port function, port a power of ten, zero run at an end of the address, buffer of exactly "
              "need or need-1 bytes, IPv6 or blank-padded parser input, prefix length not a multiple of 8, arbitrary masks. distinct = per "
              "check, max over variants of distinct case fingerprints."),
        assumptions=["refimpl/ip_text.hpp is right (anchored on RFC 5952/4291 examples and 918 Python ipaddress vectors at start-up)",
                     "for addresses in ::ffff:0:0/96 and the deprecated ::/96 both the hexadecimal RFC 5952 text and the mixed dotted-quad notation count as conventional",
                     "a buffer of STR_ADDR_LEN bytes must always suffice; between need and STR_ADDR_LEN a refusal is tolerated (labelled conservative_refusal)",
                     "AF_UNIX paths are 1..107 bytes, start with '/' or '.', and do not end in blank or ']' (the parser documents that it trims those)",
                     "bare IPv6 text handed to sa_addr_port_from_str is asserted only where the documented 'v6:port' reading is unambiguous"],
    )


MANIFEST = {"C18": dict(
    engine="rc-shim",
    technique="rapidcheck over a C shim: RFC 5952 reference text and strict RFC 4291 parser (refimpl/ip_text.hpp), unsigned __int128 mask arithmetic, guarded output buffers, enumeration of all ports and all prefix lengths",
    text=("Generated-input search: IPv4/IPv6/AF_UNIX addresses (boundary octets, every zero-run shape, embedded IPv4), all ports, output buffers of "
          "0..need+1 bytes are formatted by sa_addr_to_str/sa_addr_port_to_str and compared with an independent RFC 5952 reference, then parsed "
          "back; the parsers get the documented spellings (must yield the address) and constructed-invalid strings (must fail); prefix/mask "
          "conversions, truncation and membership are compared with 128-bit integer arithmetic; gcc/clang, -O0/-O2 and an ASan+UBSan build."),
    design_ref="DESIGN.md section 4 C18",
    note=("Sampling plus two enumerations (ports, prefix lengths), not proof. glibc inet_ntop/inet_pton are what the code calls and are used only "
          "as a start-up cross-check of the reference. Undocumented parser spellings (port > 65535, non-digits in the port, garbage between ']' "
          "and ':') are label-only probes."),
)}
