# C07 -- HMAC equals RFC 2104 for every key length, message and chunking. Same shim and build-variant
# matrix as C04 (vlib/reg_C04.py).
from .registry import prop
from .reg_C04 import hash_variants


@prop("C07")
def c07():
    return dict(
        units=[dict(kind="rc", driver="C07_hmac", shims=["hash.c"], variants=hash_variants,
                    scale={"quick": 1.0, "thorough": 4.0})],
        level="exploration",
        rule=("rapidcheck cases (hash, key length from {0,1,hash_len,block-1,block,block+1,2*block,3*block}, their neighbours and random "
              "0..3 blocks, key content random/00/FF/0x36/0x5c, key and message alignment, NULL empty key, message and partition as in C04 "
              "with lengths up to 4 KiB, entry point hmac_*_init/update/final | hmac_*() | *_hmac_get_digest | *_hmac_get_digest_str, "
              "compiled-in transform forced on the inner hash, context junk fill, a second keyed computation on the same context object) run "
              "against every build variant and compared with an RFC 2104 construction over the reference hash, libgcrypt HMAC and OpenSSL "
              "HMAC (which must first agree with each other); an enumeration adds every key length 0..block+2 and the 2-/3-block points "
              "(thorough: every length 0..3 blocks) x five message lengths x all entry points and transforms. Non-trivial: key longer than "
              "the block (key-hashing branch), key == block, empty key, or >= 2 non-empty updates. distinct = per check, max over variants of "
              "distinct case fingerprints (variants use different seeds, so this undercounts)."),
        assumptions=["libgcrypt 1.10 hashes are correct (OpenSSL 3 cross-check for six algorithms; Streebog anchored on RFC 6986 and RFC 7836 vectors)",
                     "HMAC-Streebog is plain RFC 2104 with a 64-byte block (RFC 7836 section 4.1)",
                     "contexts are allocated with the alignment their type demands; build matrix cells that do not compile are absent (see C04)"],
    )


MANIFEST = {
    "C07": dict(
        engine="rc-shim",
        technique="rapidcheck differential testing of HMAC against three agreeing oracles (RFC 2104 construction over the reference hash, libgcrypt, OpenSSL) over the C04 build-variant matrix, plus enumeration of key lengths",
        text=("Generated-input search: key lengths around 0 / hash size / block / multiples of the block, arbitrary messages and partitions, all "
              "four entry points, every compiled-in inner transform, in the same 10 (quick) / 66 (thorough) build variants as C04; the MAC "
              "must equal RFC 2104, k_opad and the embedded hash context must be all zero after hmac_*_final, and a second init/update/final "
              "on the same object (also with another SHA-2 / Streebog output size) must equal a fresh computation."),
        design_ref="DESIGN.md section 4 C07",
        note=("Sampling plus an exhaustive key-length sweep in the thorough tier, not proof. The stack copy k_ipad inside hmac_*_init and the "
              "contexts of the one-shot calls are not observable through the API and are not checked."),
    ),
}
