# C08 -- ChaCha / HChaCha / XChaCha and GOST 28147-89 (drivers/C08_cipher.cpp, shims/cipher.c)
import random
from .core import Variant
from .registry import prop


def _all_variants():
    vs = []
    i = 0
    for cc in ("gcc", "clang"):
        for opt in ("-O0", "-O1", "-O2", "-O3"):
            for alias in (0, 1):
                for small in (0, 1):
                    name = "%s%s%s%s" % (cc, opt.replace("-", ""), "_nsa" if alias else "", "_small" if small else "")
                    fl = [opt]
                    if alias:
                        fl.append("-fno-strict-aliasing")
                    if small:
                        fl.append("-DGOST28147_USE_SMALL_TABLES=1")
                    # no predefined macro tells the shim whether -fstrict-aliasing is in effect
                    lvl = int(opt[2])
                    if not alias and lvl >= (2 if cc == "gcc" else 1):
                        fl.append("-DC08_TBAA=1")
                    vs.append(Variant(name, cc, fl, seed_off=i))
                    i += 1
    return vs


def variants(tier, seed):
    allv = _all_variants()
    if tier == "thorough":
        vs = list(allv)
    else:
        byname = {v.name: v for v in allv}
        fixed = ["gccO2", "gccO3_small", "clangO2_small", "clangO3", "gccO0_nsa_small", "clangO0_nsa"]
        vs = [byname[n] for n in fixed]
        rest = [v for v in allv if v.name not in fixed]
        r = random.Random(seed)
        r.shuffle(rest)
        vs += rest[:1]
    # sanitised twins: exact-size buffers make every over-read/over-write of src/dst visible
    vs.append(Variant("clangO1_asan", "clang", ["-O1", "-DC08_TBAA=1"], san=True, seed_off=900))
    if tier == "thorough":
        vs.append(Variant("gccO2_small_asan", "gcc", ["-O2", "-DGOST28147_USE_SMALL_TABLES=1", "-DC08_TBAA=1"], san="asan_only", seed_off=901))
        vs.append(Variant("clangO3_small_asan", "clang", ["-O3", "-DGOST28147_USE_SMALL_TABLES=1", "-DC08_TBAA=1"], san=True, seed_off=902))
    return vs


@prop("C08")
def c08():
    return dict(
        units=[dict(kind="rc", driver="C08_cipher", shims=["cipher.c"], variants=variants,
                    scale={"quick": 1.0, "thorough": 10.0})],
        level="exploration",
        rule=("rapidcheck cases run against every build variant ({gcc,clang} x -O0..-O3 x strict/no-strict aliasing x GOST small/expanded "
              "tables; each variant its own seed) and compared byte for byte with spec-derived references (refimpl/chacha_ref.hpp, "
              "refimpl/gost28147_ref.hpp) that are anchored at start-up on RFC 8439, draft-irtf-cfrg-xchacha, the library's embedded "
              "self-test vectors, libgcrypt and OpenSSL, and re-checked against libgcrypt per case where libgcrypt implements the "
              "configuration. ChaCha case = (chacha|xchacha, rounds 8/12/20, 128/256-bit key, iv/counter present or NULL, initial counter "
              "biased to the 2^32 and 2^64 wraps, 0..383 bytes, partition into stream calls incl. 0-byte calls / 1-byte dribble / splits at "
              "63,64,65, per call src/dst alignment 0..7 in exact-size allocations, in-place, NULL src), one-shot, chacha_blocks_transform "
              "with counter seek, hchacha; plus an enumeration of all 8x8 alignment pairs. GOST case = (LE|BE API, key, one of the built-in "
              "S-box tables or 8 random permutations, 0..16 blocks, encrypt/decrypt alignments, in-place, MAC over a prefix split into calls, "
              "mac_size 0..12); plus enumeration of all alignment pairs x tables, table contents and round function. Non-trivial (ChaCha): "
              ">= 2 stream calls with a split inside a block, or low-word counter wrap, or any unaligned / 4-but-not-8 aligned / in-place "
              "call. Non-trivial (GOST): >= 1 block and (unaligned or in-place call, or custom S-box, or >= 2 MAC calls). distinct = per "
              "check, max over variants of distinct case fingerprints."),
        assumptions=["libgcrypt 1.10 ChaCha20 / GOST28147 / GOST28147_IMIT and OpenSSL 3 chacha20 are correct (used only to validate the references)",
                     "XChaCha with 8/12 rounds or 128-bit keys has no external standard: the oracle is the construction the header documents, "
                     "chacha(hchacha(key, iv[0:15]), counter, iv[16:23])",
                     "the 64-bit block counter wraps modulo 2^64 without touching the nonce (header: stopping earlier is the user's responsibility)",
                     "GOST MAC truncation (mac_size < 8) and the BE MAC byte order are library conventions: prefix of LE32(N1)||LE32(N2), "
                     "resp. BE32(N1)||BE32(N2) as fixed by the library's own GOST R 34.12-2015 A.2.4 step-16 vector",
                     "custom S-boxes are 8 permutations of 0..15; src/dst either identical or disjoint; x86-64 little-endian host"],
    )


MANIFEST = {
    "C08": dict(
        engine="rc-shim",
        technique="rapidcheck differential testing against spec-derived ChaCha/GOST 28147-89 references (anchored on RFC/standard vectors, "
                  "libgcrypt and OpenSSL) over a compiler/optimisation/aliasing/table-layout build matrix, plus enumerated alignment sweeps",
        text=("Generated-input search: ChaCha/XChaCha stream, one-shot, block and HChaCha calls (8/12/20 rounds, 128/256-bit keys, counters at "
              "the 2^32/2^64 wraps, arbitrary splits, all src/dst alignments in exact-size buffers, in-place, NULL src) and GOST 28147-89 "
              "encrypt/decrypt/MAC calls (LE and BE API, every built-in S-box table and random S-boxes, all alignments, in-place) are executed in "
              "8 (quick) / 35 (thorough) build variants and compared byte for byte with independent references; decryption must invert "
              "encryption for every alignment pair; contexts must be wiped by *_final; the library's never-built self-tests must pass."),
        design_ref="DESIGN.md section 4 C08",
        note=("Sampling, not proof. Only x86-64 little-endian is exercised (the CHACHA_X32 path and big-endian hosts are not). Overlapping but "
              "non-identical src/dst are outside the asserted domain. Messages are <= 383 bytes (ChaCha) / 16 blocks (GOST); the counter is "
              "moved to the wrap points instead of streaming 2^38 bytes."),
    ),
}
