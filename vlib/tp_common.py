# Shared build description of the thread-pool harness (C05, C06, C10, C11, C16)
from .core import Variant

INTERPOSE = ["-DLIBLCB_VERIF"] + ["-D%s=verif_%s" % (f, f) for f in (
    "calloc", "free", "close", "write", "read", "pipe2", "epoll_create1", "epoll_ctl",
    "timerfd_create", "timerfd_settime", "pthread_create", "pthread_join", "pthread_mutex_unlock")]


def repo_src(path):
    return {"src": "repo:" + path, "cflags": INTERPOSE}


TP_CORE = [repo_src("src/threadpool/threadpool.c"), repo_src("src/threadpool/threadpool_msg_sys.c")]


def tp_variants(tier, seed):
    vs = [
        Variant("gccO2", "gcc", ["-O2", "-pthread"], seed_off=0),
        Variant("clangO1_asan", "clang", ["-O1", "-pthread"], san="asan_only", seed_off=1),
        Variant("gccO0", "gcc", ["-O0", "-pthread"], seed_off=2),
    ]
    if tier == "thorough":
        vs += [Variant("clangO2", "clang", ["-O2", "-pthread"], seed_off=3),
               Variant("gccO1_asan", "gcc", ["-O1", "-pthread"], san="asan_only", seed_off=4),
               Variant("gccO3", "gcc", ["-O3", "-pthread"], seed_off=5)]
    return vs
