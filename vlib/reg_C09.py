# C09 -- key encoding, validation, derivation and Diffie-Hellman are consistent; byte-string entry points stay in bounds.
from .core import Variant
from .registry import prop, _pick
from .reg_C03 import ec_flags, SUITE


def c09_all():
    suite_chk = dict(SUITE)
    suite_chk["nochk"] = False
    return [
        # 0/1: the configuration of tests/ecdsa/main.c, with validation compiled out (as the suite has it) and compiled in
        Variant("suite_nochk", "gcc", ec_flags(**SUITE) + ["-O2"], seed_off=0),
        Variant("suite_chk", "gcc", ec_flags(**suite_chk) + ["-O2"], seed_off=1),
        # 2: header defaults (affine, COMB_2T w8, JOINT), validation on, ASan (memory half of the property)
        Variant("defaults_chk_asan", "clang", ["-DBN_BIT_LEN=2048", "-DES_CASE_SCALE_PCT=30", "-O1"], san="asan_only", seed_off=2),
        # 3: projective, portable digit arithmetic, validation off, ASan built by gcc
        Variant("w64pt_proj_nochk_asan", "gcc",
                ec_flags(w=64, cc=False, fxp="COMB_1T", fxp_w=4, unk="COMB_1T", unk_w=2, twin="JOINT", nochk=True, scale=50) + ["-O1"],
                san="asan_only", seed_off=3),
        # 4: W=32, projective without mixed addition, sliding window for unknown points (n*Q of the validation)
        Variant("w32cc_proj_nomix_slwin_chk", "gcc",
                ec_flags(w=32, mix=False, rep_dbl=False, fxp="SLIDING_WIN", fxp_w=4, unk="SLIDING_WIN", unk_w=2, twin="FXP_UNKPT", scale=70) + ["-O2"],
                seed_off=4),
        # 5: W=8 portable, affine, binary everything, validation on
        Variant("w8pt_affine_bin_chk", "gcc", ec_flags(w=8, cc=False, proj=False, fxp="BIN", unk="BIN", twin="BIN", scale=8) + ["-O2"], seed_off=5),
        # 6: W=32 portable affine, comb for unknown points, validation off
        Variant("w32pt_affine_comb_nochk", "clang",
                ec_flags(w=32, cc=False, proj=False, fxp="COMB_1T", fxp_w=3, unk="COMB_2T", unk_w=3, twin="FXP_UNKPT", nochk=True, scale=30) + ["-O2"],
                seed_off=6),
        # 7: W=8 compiler double digits, projective, validation on, ASan
        Variant("w8cc_proj_chk_asan", "clang",
                ec_flags(w=8, cc=True, fxp="COMB_1T", fxp_w=3, unk="BIN", twin="JOINT", scale=8) + ["-O1"], san="asan_only", seed_off=7),
    ]


def variants(tier, seed):
    allv = c09_all()
    if tier == "thorough":
        return allv
    return allv[:4] + _pick(allv[4:], 1, seed)


FUZZ_EC = ["-DBN_BIT_LEN=1408", "-DEC_USE_PROJECTIVE=1", "-DEC_PROJ_ADD_MIX=1", "-DEC_PROJ_REPEAT_DOUBLE=1", "-DEC_PF_FXP_MULT_ALGO=0",
           "-DEC_PF_UNKPT_MULT_ALGO=3", "-DEC_PF_UNKPT_MULT_WIN_BITS=2", "-DEC_PF_TWIN_MULT_ALGO=2",
           # bn_sub() evaluates num[digits - 1] with digits == 0 (index -1, inside the bn_t object; C01 observation H-BN-3):
           # not an access to a caller buffer, which is what this property is about
           "-fno-sanitize=bounds,pointer-overflow"]


@prop("C09")
def c09():
    return dict(
        units=[
            dict(kind="rc", driver="C09_keys", shims=["ecdsa_shim.c"], variants=variants, scale={"quick": 1.0, "thorough": 10.0}),
            dict(kind="lf", targets=[
                dict(name="import", src="C09_import.c", cflags=FUZZ_EC, libs=["-lgmp"], max_len=140,
                     runs={"quick": 9000, "thorough": 120000}, jobs={"quick": 2, "thorough": 4}),
                dict(name="import_nochk", src="C09_import.c", cflags=FUZZ_EC + ["-DEC_DISABLE_PUB_KEY_CHK=1"], libs=["-lgmp"], max_len=140,
                     runs={"quick": 25000, "thorough": 600000}, jobs={"quick": 2, "thorough": 4}),
            ]),
        ],
        level="exploration",
        rule=("rapidcheck cases over the 32 table curves (curves whose group is larger than <G> - decided from the group order, not from the table cofactor - weighted up; a quarter of the imports go into a point object that held the neutral element before): codec = (point class {kG, G, -G, 2G, infinity, "
              "outside the order-n subgroup, small order} x encoding {compressed, packed 04, split x|y, concatenated, hybrid 06/07} x "
              "{be, le} x one of 12 mutations built from the valid octets); keys = key generation / public-key recovery over scalar "
              "classes and rnd / key sizes; dh = key pairs, cofactor on/off, peer key in every encoding, degenerate peers; sizes = size "
              "sweeps of sign / verify. All byte strings are exact-size heap blocks (ASan variants) or guarded blocks. libFuzzer side "
              "targets feed arbitrary octets to the import functions. Non-trivial: invalid-by-one-property encodings, little-endian "
              "forms, cofactor-4 curves, boundary sizes, degenerate scalars/peers. distinct = fingerprints of non-trivial serialised "
              "cases per check (max over variants) + fuzz corpus sizes."),
        assumptions=["GMP and OpenSSL 3 are correct (cross-checked on every generator and on d*G)",
                     "points handed to import are initialised with ec_point_init() first, as every in-tree caller does",
                     "with EC_DISABLE_PUB_KEY_CHK only format-level rejection and the decoding of on-curve points are promised",
                     "the X9.62 hybrid form with a contradictory parity bit is recorded, not judged (SEC 1 does not define it)",
                     "private keys wider than the field in octets (possible only on secp160*/secp224k1) cannot be expressed through the byte API and are not generated"],
    )


MANIFEST = {"C09": dict(
    engine="rc-shim + lf",
    technique="rapidcheck differential testing against a SEC1 reference over GMP and OpenSSL EC_POINT_oct2point / EC_POINT_mul with exact-size buffers under ASan, plus a libFuzzer target on the import functions",
    text=("Generated-input search: export/import round trips and SEC1 octet equality in all forms and both byte orders; import accept/reject "
          "equals the reference predicate 'neutral element, or on the curve with coordinates < p and annihilated by n' for valid and "
          "constructed-invalid encodings (off-curve, out of range, wrong prefix/parity, truncated/extended, no square root, points outside the "
          "subgroup on every curve whose group order exceeds n); key generation, public-key recovery and (cofactor) Diffie-Hellman equal the reference, DH is "
          "symmetric; every byte-string argument is an exact-size allocation so that ASan / guard bytes see any access outside the sizes "
          "passed. 5 (quick) / 8 (thorough) build variants with and without EC_DISABLE_PUB_KEY_CHK."),
    design_ref="DESIGN.md section 4 C09, hypothesis H-EC-3",
    note=("Sampling, not proof. With EC_DISABLE_PUB_KEY_CHK only format-level behaviour is asserted. Over-reads are visible only in the ASan "
          "variants; the other variants detect over-writes by guard bytes and the rnd over-read by its effect on the signature."),
)}
