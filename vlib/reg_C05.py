from .registry import prop
from .tp_common import TP_CORE, tp_variants


@prop("C05")
def c05():
    return dict(
        units=[dict(kind="rc", driver="C05_msg", shims=["tp_common.c", "tp_msg.c"] + TP_CORE, variants=tp_variants,
                    scale={"quick": 1.0, "thorough": 12.0})],
        level="exploration",
        rule=("rapidcheck scenarios: pool size 1..16, 1-6 concurrent senders (external threads or programs running inside pool threads), "
              "1-200 sends each to real threads or the virtual thread with every flag combination, optional stalled destination + burst > 2048 "
              "packets (real EAGAIN), schedule plan consumed at the LIBLCB_VERIF points, fault plan failing the k-th queue write/read; plus an "
              "exhaustive single-fault sweep over every write position of small fixed scenarios. Two closing phases (mutually exclusive): a late "
              "burst (destination held in a callback, tp_shutdown(), up to 1900 accepted sends, release: all must be delivered) and a "
              "shutdown race (an external thread keeps sending while tp_shutdown() is called, every second send held right after its queue "
              "write, optionally one send held between the state test and the write; relaxed oracle: failure => never ran, never twice). Also: pool "
              "settings flags (BIND2CPU, CLOEXEC), one send whose argument is the callback's own address, self-sends issued after the thread's stop "
              "message, the async-operation helpers (allocate on one thread or outside, complete on another), other event sources (timer, readable pipe) registered "
              "on the virtual thread competing with a message for it, a late burst whose tp_shutdown() is issued by the held thread itself, and a message handler that issues a "
              "SYNC|SELF_SKIP broadcast in the middle of its batch (first burst message of a released thread). Non-trivial: >=2 senders interleave on one "
              "destination, or a fault/queue-full/failed send occurred, or a direct-call path was taken, or the virtual thread was a destination "
              "with >=2 threads, or a late burst / shutdown race ran. distinct = distinct scenario fingerprints."),
        assumptions=["for sends racing with tp_shutdown() 'accepted => delivered' is not asserted (known finding c05_send_accepted_after_last_queue_look_is_lost)",
                     "interleavings are perturbed at marked points and by OS scheduling, not enumerated",
                     "a 32-byte pipe write is atomic (POSIX), so short writes are not injected",
                     "a hang is reported only if the 20 s ceiling is hit in 3 of 3 runs of the same scenario"],
    )


MANIFEST = {"C05": dict(
    engine="tp-sched",
    technique="rapidcheck-generated concurrent scenarios + schedule/fault plans, history invariants; exhaustive single-fault sweep",
    text=("Generated concurrent scenarios are executed on the real pool (built from /repo with -DLIBLCB_VERIF and libc calls of the library "
          "interposed at compile time); every callback is logged and the history is checked for exactly-once delivery, right thread, "
          "per-(sender,destination) order, direct-call rules and no callback on failure."),
    design_ref="DESIGN.md section 4 C05",
    note=("Schedules are sampled (perturbed at 18 marked points), not enumerated; races narrower than a marked point are seen only by luck. "
          "Kernel behaviour of pipes/epoll is trusted."),
)}
