# C12 -- utility codecs and containers never touch memory outside the caller's buffers.
# Unit 1: rapidcheck capacity sweeps (drivers/C12_caps.cpp + shims/caps.c): every capacity 0..need+1.
# Unit 2: libFuzzer, one target per family (fuzz/C12_<family>.c).
from .core import Variant
from .registry import prop

# Predicates of the suspected genuine defects (notes/C12.md has replay inputs and proposed patches). They become
# active only through known_findings.json (status=known) or VERIF_EXTRA_KNOWN (development aid).
PREDICATES = [
    "mem_replace_arr_small_dst",        # H-UT-4  mem_replace_arr / xml_encode / xml_decode overrun a too small dst
    "buf2args_last_arg_at_end",         # H-UT-5  NUL at buf[buf_size]
    "mem_find_stream_stale_cmp_len",    # new     memcmp() with a stale length reads past the pattern
    "asn1_uni_longtag_index",           # new     asn_class_uni_ps[tag], tag >= 32
    "asn1_short_len_unchecked",         # new     short-form length not tested against the buffer
    "bt_list_end_overread",             # new     'e' == *cur_pos with cur_pos == buf_max
    "bt_str_len_wrap",                  # new     raw_size + ptm wraps
    "bt_dict_key_not_str",              # new     non-string key => success, raw_size SIZE_MAX, exponential time
    "xml_lt_last_byte",                 # new     '<' as the last byte
    "xml_close_tag_at_top_level",       # new     tag_arr[-1]
    "xml_tag_arr_past_count",           # new     tag_arr[> count], ret_ns[count] written
    "xml_next_pos_at_end_restarts",     # new     next_pos == end restarts the scan (endless count loop)
    "fmt_as_uptime_cap0",               # new     returns SIZE_MAX for buf_size 0
    "sptab_count_r_empty",              # new     buf + (0 - 1) (UB only)
]
# Fixed in /repo while this check was built (7fcfd35/e1d7694, 4ffbb49, 8020ffc); the targets still know these names, but they
# must not be activated any more: the replay files under replays/C12/ are plain regression inputs now.
FIXED_PREDICATES = [
    "num2str_pow10",                    # H-UT-1  UNUM2STR/SNUM2STR: +10^k stored from buf[-1] (also via ini_val_set_int/uint)
    "base64_encode_nul_at_cap",         # H-UT-3  NUL at dst[enc_size] with dst_size == enc_size
    "base64_decode_nul_at_cap",         # H-UT-3  NUL at dst[dcd_size] with dst_size == dcd_size, whole quads
    "ini_buf_gen_cap_lt_total",         # H-UT-7  ini_buf_gen overruns when 2 <= buf_size < calc_size
]

def variants(tier, seed):
    vs = [
        Variant("gccO2", "gcc", ["-O2"], seed_off=0),
        Variant("clangO3", "clang", ["-O3"], seed_off=1),
        Variant("clangO1_asan", "clang", ["-O1"], san=True, seed_off=2),
        Variant("gccO1_asan", "gcc", ["-O1"], san=True, seed_off=3),
    ]
    if tier == "thorough":
        vs += [Variant("gccO0", "gcc", ["-O0"], seed_off=4), Variant("clangO0_asan", "clang", ["-O0"], san=True, seed_off=5)]
    return vs


BUFSTR = "repo:src/utils/buf_str.c"


def _t(name, max_len, quick, extra=(), dic=None, thorough_mult=25):
    # runs sized for ~20 s on one otherwise idle core (quick) and ~8 min per job (thorough); max_time is the ceiling on a
    # loaded machine. Even jobs start from corpus/C12/<target>, odd jobs from an empty corpus (core.run_lf_unit).
    d = dict(name=name, src="C12_%s.c" % name, extra_src=list(extra), cflags=[], max_len=max_len,
             runs={"quick": quick, "thorough": quick * thorough_mult}, jobs={"quick": 1, "thorough": 2},
             max_time={"quick": 75, "thorough": 1500}, timeout=10)
    if dic:
        d["dict"] = dic
    return d


@prop("C12")
def c12():
    targets = [
        _t("base64", 256, 2400000),
        _t("hex", 128, 2000000, extra=[BUFSTR]),
        _t("num", 64, 2000000),
        _t("utf8", 64, 1500000),
        _t("asn1", 128, 2000000),
        _t("bencode", 256, 800000, extra=["repo:src/utils/bt_encode.c"], dic="C12_bencode.dict"),
        _t("xml", 256, 900000, extra=["repo:src/utils/xml.c"], dic="C12_xml.dict"),
        _t("ini", 256, 500000, extra=["repo:src/utils/ini.c", BUFSTR], dic="C12_ini.dict"),
        _t("bufstr", 128, 2000000, extra=[BUFSTR]),
        _t("mem", 128, 1300000),
        _t("crc", 256, 1200000),
    ]
    return dict(
        units=[
            dict(kind="rc", driver="C12_caps", shims=["caps.c", BUFSTR], variants=variants,
                 scale={"quick": 1.0, "thorough": 10.0}),
            dict(kind="lf", targets=targets),
        ],
        level="exploration",
        rule=("(1) rapidcheck driver C12_caps: for one call (20 X2str/X2ustr formatters, base64_encode/decode/decode_fmt, cvt_hex2bin/"
              "bin2hex) and one input, EVERY output capacity 0..need+1 is executed twice: with the capacity between two 64-byte canary "
              "zones (writes outside are counted, nothing crashes) and with exact-size heap blocks (sanitised variants see reads too); "
              "rc/size contract per capacity, the self-reported size must succeed. Enumerated exhaustively: 0/1/min/max/+-10^k+-1 of every "
              "integer type, Base64 lengths 0..64 (encode, decode canonical and with 1-2 symbols stripped, decode_fmt with line breaks), hex "
              "0..32; plus random values. Non-trivial: value with >= 2 digits / non-empty payload; distinct by case text. "
              "(2) libFuzzer (ASan + UBSan bounds/object-size/pointer-overflow/null), 11 targets, one per family. Input = selector bytes "
              "(function, capacity class from {0,1,need-1,need,need+1,random}, auxiliary sizes) + payload; every input and output in an "
              "exact-size heap block, no NUL appended; in-place APIs get a writable copy. Semantic oracle inside the target: returned "
              "pointers/spans inside the given buffers, sizes <= capacity, refused buffers untouched, a reported size makes the second "
              "call succeed, iteration (next line, next_pos, offset chain, dictionary cursor, stream chunks) bounded by len+2 steps, "
              "reference values where a standard exists (RFC 4648, RFC 3629 sequence count, Rocksoft-model CRC, documented argument "
              "splitting rule, snprintf uptime text). distinct_nontrivial per target = final libFuzzer corpus size (coverage-distinct "
              "inputs); 'deep' in coverage.fuzz[] counts executions that got past argument checks into the function's main loop; "
              "labels = outcome / capacity classes."),
        assumptions=[
            "ASan redzones (>=16 octets) catch the first out-of-range octet; clang's trap-only local-bounds check reports as 'deadly signal' without text",
            "X2str capacity counts the terminating NUL (in-tree callers pass the remaining buffer); text correctness of formatters/parsers is C14's property",
            "xml_get_val_arr / xml_get_val_ns_arr get tag arrays with a NULL/0 entry at [tag_arr_count], as every in-tree wrapper builds them",
            "tag names for the *_args wrappers and names passed with size 0 to ini_val_* are C strings (the functions call strlen on them)",
            "buf2args is given a non-NULL args_sizes array; mem_*_ptr get a pointer into the buffer (or NULL / one past the end)",
            "bencode inputs <= 256 bytes (recursion depth); unbounded recursion on longer inputs is not explored",
            "snprintf/memchr/memmem/strncasecmp of glibc are trusted",
        ],
    )


MANIFEST = {
    "C12": dict(
        engine="lf",
        technique="libFuzzer + ASan/UBSan with exact-size buffers, capacity classes and semantic postconditions; rapidcheck sweep of every capacity for structured values",
        text=("Generated-input search over Base64, hex, number<->string, UTF-8, ASN.1, bencode, XML, INI, argument splitting, line "
              "iteration, memory search/replace helpers and CRC: inputs and outputs sit flush against sanitizer redzones, capacities are "
              "drawn around the required size (fuzzer) or swept completely 0..need+1 (rapidcheck driver for powers of ten, type "
              "minima/maxima, all Base64/hex tail shapes); out-of-range accesses, sizes above the capacity, spans outside the input, "
              "unusable self-reported sizes and iterations exceeding len+2 steps are violations."),
        design_ref="DESIGN.md section 4 C12, hypotheses H-UT-1..8 in section 6",
        note=("Sampling, not proof. 18 defect classes were found on the tree as of e07a8d2; 4 have been fixed in /repo since (replays kept "
              "as regression inputs), 14 are fenced by named predicates only while listed in known_findings.json (notes/C12.md: replay "
              "inputs under replays/C12/, proposed patches). Value semantics (text of "
              "formatters, parser results, decoder output beyond the standard references used as oracle) belong to C14/C17."),
    ),
}
