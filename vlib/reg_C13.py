# C13 -- network message parsers are memory-safe and bounded on hostile packets (libFuzzer engine).
from .registry import prop

# predicates of the suspected genuine defects (notes/C13.md); listed here so a reader finds them in one place.
# They become active only through known_findings.json (status=known) or VERIF_EXTRA_KNOWN (development aid).
PREDICATES = [
    "dns_seq_labels_read_at_end", "dns_seq_labels_size_past_end", "dns_rr_fixed_part_read_past_end",
    "dns_name_walk_past_end", "dns_labels2domain_root_underflow", "dns_labels2domain_unterminated",
    "radius_attr_from_offset_read_past_end", "radius_pkt_chk_short_datagram_read",
    "http_skip_spwsp_read_at_end", "http_url_decode_pct_read_past_end", "http_chunked_size_wraps",
    "http_hdr_val_remove_read_at_end",
    "sdp_type_get_read_past_end",
    "mpeg2ts_psi_hdr_read_past_packet",
]


def _t(name, max_len, quick, thorough, extra=()):
    # runs are sized for ~15-25 s (quick) / ~3-5 min (thorough) per job on a loaded machine; jobs alternate
    # seeded (even) and empty-corpus (odd) campaigns (core.run_lf_unit)
    return dict(name=name, src="C13_%s.c" % name, extra_src=list(extra), cflags=[], max_len=max_len,
                runs={"quick": quick, "thorough": thorough}, jobs={"quick": 2, "thorough": 4},
                max_time={"quick": 120, "thorough": 1500}, dict="C13_%s.dict" % name, timeout=10)


@prop("C13")
def c13():
    targets = [
        _t("dns", 1500, 450000, 4000000),
        _t("radius", 700, 2000000, 18000000),
        _t("dhcp4", 700, 1500000, 12000000),
        _t("http", 900, 800000, 7000000, extra=["repo:src/proto/http.c"]),
        _t("sdp", 1200, 600000, 5000000),
        _t("sap", 1200, 1500000, 12000000),
        _t("rtp", 400, 2000000, 15000000),
        _t("mpeg2ts", 1500, 500000, 5000000),
    ]
    return dict(
        units=[dict(kind="lf", targets=targets)],
        level="exploration",
        rule=("libFuzzer (ASan + UBSan bounds/object-size/pointer-overflow/null) over 8 targets, one per parser family. Input = selector "
              "byte (entry function + auxiliary argument class: output capacity, offset, lookup name) + packet in an exact-size heap "
              "block (no NUL; sdp/sap entries that follow sap_rcvr.c add the receiver's NUL). Functions are called the way the in-tree "
              "callers do (dns_msg_info_get offsets feed the per-record getters, radius_* after radius_pkt_chk, header span before "
              "CRLFCRLF, lower-cased twin for http_hdr_val_remove) plus the functions that validate their own arguments. Semantic "
              "oracle inside the target: independent reference walks (RFC 1035 names/sections, RADIUS attribute tiling, RFC 7230 "
              "field lookup, chunk sizes, URL escapes, SDP lines, SAP/RTP/TS header arithmetic); returned pointers/lengths inside "
              "the packet or output buffer, offsets monotone, counts equal to the reference, in-place decoders size <= input, target "
              "loops bounded by len+1 steps. Half of the jobs start from corpus/C13/<target>, half from an empty corpus. "
              "distinct_nontrivial = per target the largest final libFuzzer corpus (coverage-distinct inputs) of its jobs; "
              "'deep' in coverage.fuzz[] counts library calls that got past argument checks; labels = entry/outcome classes."),
        assumptions=[
            "ASan redzones (>=16 octets) catch the first out-of-range octet; far out-of-range reads are covered by the reference postconditions",
            "offset arguments stay in the range natural iteration produces (mpeg2_ts_pkt_get_next off <= buf_size; RADIUS offsets from find / previous offset + attribute length)",
            "DomainNameZonesReverce gets a NUL-terminated source and name_len+1 destination octets (its documented example uses C strings)",
            "sap_rcvr.c convention (NUL written after the datagram) is modelled for the SDP stage of the sap target and two sdp entries; all other entries use the bare (pointer,size) contract",
            "single-threaded calls; timing/CPU cost only through libFuzzer -timeout=10",
        ],
    )


MANIFEST = {
    "C13": dict(
        engine="lf",
        technique="libFuzzer + ASan/UBSan, structure-aware decode, reference-walk postconditions, seeded and empty-corpus campaigns",
        text=("Generated-input search over the DNS, RADIUS, DHCPv4, HTTP, SDP, SAP, RTP and MPEG-TS parsers: hostile packets in exact-size "
              "allocations, functions called with the in-tree calling protocol; sanitizer reports, reference-walk disagreements, pointers or "
              "lengths outside the message, non-monotone offsets and loops exceeding len+1 steps are violations."),
        design_ref="DESIGN.md section 4 C13, hypotheses H-PR-1..6 in section 6",
        note=("Sampling, not proof. 14 defect classes found on the unchanged tree are excluded by named predicates only when listed in "
              "known_findings.json (notes/C13.md: replay inputs under replays/C13/fuzz-*/, proposed patches). Value semantics of the "
              "parsers (RFC conformance of accepted messages) belong to C15/C20."),
    ),
}
