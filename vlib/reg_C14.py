# C14 -- encoders/decoders are mutual inverses and agree with their standards.
from .core import Variant
from .registry import prop


def c14_variants(tier, seed):
    vs = []
    i = 0
    for cc in ("gcc", "clang"):
        for opt in ("-O0", "-O2"):
            vs.append(Variant("%s%s" % (cc, opt.replace("-", "")), cc, [opt], seed_off=i))
            i += 1
    # ASan + the UBSan verdict subset: every buffer in shims/codec.c is an exact-size malloc in this build
    vs.append(Variant("clangO1_asan_ubsan", "clang", ["-O1"], san=True, seed_off=50))
    return vs


@prop("C14")
def c14():
    return dict(
        units=[dict(kind="rc", driver="C14_codec",
                    shims=["codec.c", "repo:src/utils/buf_str.c", "repo:src/utils/xml.c", "repo:src/proto/http.c"],
                    variants=c14_variants, scale={"quick": 1.0, "thorough": 8.0})],
        level="exploration",
        rule=("rapidcheck cases per codec family, each run against 5 build variants ({gcc,clang} x {-O0,-O2} + clang ASan/UBSan) with "
              "every buffer allocated at exactly the size the function reports or needs: b64 (byte strings of length 0..300, all "
              "lengths mod 3, junk plan for the tolerant decoder incl. inside the padding run) vs an RFC 4648 reference + OpenSSL "
              "EVP_EncodeBlock; hex (case/separator restyling, padded buffers); num / numhex (ten integer types x char/uint8_t "
              "flavour, values biased to 0, extremes, every power of ten and its neighbours) vs std::to_string; xml (strings over "
              "the five special characters, literal entities and fragments); url (RFC 3986 / escape-all / form encoders, both hex "
              "cases); crc (8 variants, one shot and _update over partitions straddling CRC32_SMALL_TBL_LIMIT) vs a bit-serial "
              "Rocksoft model. Enumerations: num_edges (0, min, max, every power of ten +-1 for all 20 formatters and parsers), "
              "num_small_ints (all 8-bit values; all 16-bit values at thorough, every 5th at quick), crc_tables (every table entry "
              "on both table paths). Non-trivial: Base64 length not a multiple of 3 or junk interleaved; hex text restyled or "
              "buffer padded; integer at 0 / an extreme / a power of ten or next to one (numhex: full-width, signed, restyled "
              "digits); XML string containing a special character or entity; URL with at least one escape; CRC with >= 2 update "
              "chunks. distinct = per check, max over variants of distinct non-trivial case fingerprints (variants use different "
              "seeds, so this undercounts); enumeration checks mark none."),
        assumptions=["OpenSSL EVP_EncodeBlock and the C++ standard library's std::to_string are correct",
                     "LP64: size_t/ssize_t are 64-bit (read from the shim at start)",
                     "cvt_bin2hex of an empty value prints zeros by design (code comment 'is a = 0?'), so the hex round trip is asserted for non-empty strings",
                     "xml_decode is given a buffer one byte larger than its input (mem_replace_arr refuses some inputs with a buffer of exactly the input size; recorded as a probe label, see notes/C14.md)",
                     "http_url_decode input is well-formed percent-encoding (every % followed by two hex digits); malformed input belongs to C13",
                     "memory safety of these functions for arbitrary capacities is C12's; here out-of-buffer writes are only observed for the capacity the function itself reports"],
    )


MANIFEST = {"C14": dict(
    engine="rc-shim",
    technique="rapidcheck round-trip and standard-conformance testing of the codecs against independent references (RFC 4648 reference + OpenSSL, "
              "std::to_string, bit-serial Rocksoft CRC model) over {gcc,clang} x {-O0,-O2} + ASan/UBSan, plus enumeration of integer edge values and CRC table entries",
    text=("Generated-input search: Base64 encode/decode/en_copy/decode_fmt, cvt_hex2bin/cvt_bin2hex, the 20 integer formatters and 40 parsers, "
          "xml_encode/xml_decode, http_url_decode and the 8 CRC-32 variants are run on generated inputs with exact-size buffers; outputs and "
          "reported lengths are compared with independent references and with the inverse direction."),
    design_ref="DESIGN.md section 4 C14",
    note=("Sampling plus finite enumerations (all 8/16-bit integers at thorough, all powers of ten, all CRC table entries); not a proof for 32/64-bit "
          "integers or for all byte strings. Decoders are exercised on well-formed encodings (plus tolerated junk); malformed input is C12/C13."),
)}
