# C20 -- HTTP request parsing and smuggling checks agree with RFC 7230
from .core import Variant
from .registry import prop


def variants(tier, seed):
    return [
        Variant("gccO2", "gcc", ["-O2"], seed_off=0),
        Variant("clangO2", "clang", ["-O2"], seed_off=1),
        Variant("gccO0", "gcc", ["-O0"], seed_off=2),
        Variant("clangO1_asan", "clang", ["-O1"], san=True, seed_off=3),
    ]


@prop("C20")
def c20():
    return dict(
        units=[dict(kind="rc", driver="C20_http", shims=["http_shim.c", "repo:src/proto/http.c"],
                    variants=variants, scale={"quick": 1.0, "thorough": 12.0})],
        level="exploration",
        rule=("rapidcheck cases over a C shim, four build variants. req: a request head generated from the RFC 7230/3986 grammar (14 methods "
              "plus unknown tokens, origin/absolute/authority/asterisk targets, empty and multi-segment paths with slash runs, queries with "
              "empty pieces and keys without '=', versions 0.0-9.9, 0-14 header fields with random case, OWS, obs-fold, repeated and "
              "look-alike names, three buffer layouts incl. the field name at the very end of the buffer) with the spans recorded while "
              "writing; 45% of the cases carry exactly one smuggling edit (control byte, SP before colon, duplicate Host / Content-Length / "
              "Transfer-Encoding, both framing fields, Content-Length on GET). Every returned span / code / count is compared with the "
              "record, http_req_sec_chk with a reference of rules 1-7 in both directions. resp: status lines + header lookup. tables_enum: "
              "all single-character variants of the method names, all status codes. Non-trivial: absolute-form target, repeated slashes, "
              "folded header, repeated field name, edited block, field with blank value ending the buffer. distinct = per check, max over "
              "variants of distinct case fingerprints."),
        assumptions=["the generator's recorded spans are the RFC 7230/3986 parse of what it wrote (self-checked: the reference security rules must "
                     "flag exactly the edited blocks)",
                     "unknown method tokens start with 'A'..'Z' (the library documents that a request line starts with an upper-case letter)",
                     "grammar blocks contain no obs-text (bytes >= 0x80) and no SP directly before ':' anywhere, because the property text lists both as patterns to reject",
                     "the path is compared modulo leading/trailing '/' runs (the library's documented trimming); a non-empty path must stay non-empty",
                     "query lookups are asserted only for keys whose spelling is unique up to case and that do not also occur without '='"],
    )


MANIFEST = {"C20": dict(
    engine="rc-shim",
    technique="rapidcheck with a grammar-directed generator that records the intended parse (refimpl/http_ref.hpp), single smuggling edits, reference of the security rules 1-7, exact-size input buffers",
    text=("Generated-input search: request and status lines plus header blocks are produced from the RFC 7230 / RFC 3986 grammar with the span of "
          "every element recorded; http_parse_req_line / http_parse_resp_line / http_get_method_fast / http_hdr_val_get(_ex,_count) / "
          "http_query_val_get_ex / http_query_val_del must return exactly those spans, codes and counts (path modulo the documented slash "
          "trimming); http_req_sec_chk must return 0 for every unedited grammar block and the rule's code for every block carrying one "
          "smuggling edit; gcc/clang, -O0/-O2 and an ASan+UBSan build, inputs in exact-size allocations."),
    design_ref="DESIGN.md section 4 C20",
    note=("Sampling, not proof. Values on well-formed input and the security verdict only; memory safety on hostile bytes is C13. "
          "http_hdr_val_remove / http_hdr_vals_remove (no in-tree caller, not in the statement) are not checked."),
)}
