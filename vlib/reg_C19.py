# C19 -- ring-buffer readers see the written stream in order or are told what they lost.
from .core import Variant
from .registry import prop


def variants(tier, seed):
    return [
        Variant("gccO2", "gcc", ["-O2"], seed_off=0),
        Variant("clangO2", "clang", ["-O2"], seed_off=1),
        Variant("gccO0", "gcc", ["-O0"], seed_off=2),
        Variant("clangO1_asan", "clang", ["-O1"], san=True, seed_off=3),
    ]


@prop("C19")
def c19():
    return dict(
        units=[dict(kind="rc", driver="C19_rbuf",
                    shims=["rbuf_shim.c", "repo:src/utils/ring_buffer.c"],
                    variants=variants, scale={"quick": 1.0, "thorough": 15.0})],
        level="exploration",
        rule=("One case = ring (size 4..65536, min_block 1..size/4, round counter starting at 0 or just below SIZE_MAX) + a history of 1..60 commands "
              "(each optionally repeated): writer step = wbuf_get(min in {0,min_block,size,left,left+1,any}) + fill + commit by wbuf_set / wbuf_set with "
              "leading offset / wbuf_set2 / wbuf_set2 behind a gap / several wbuf_set2 blocks from one buffer (block lengths chosen relative to the "
              "space left so that every wrap residue occurs), wbuf_get alone, rpos_init(data_size), data_avail_size + full read, data_get(max in "
              "{1,small,avail,avail+1,SIZE_MAX,first block,first block+1}, iov_cnt in {1,2,8,64,table size}) followed by rpos_inc(k <= bytes returned) "
              "for 1..4 readers. Executed on ring_buffer.c in 4 build variants against a byte-stream model in which every ring byte maps to its absolute "
              "stream offset; the read oracle (regions inside the ring, one ascending contiguous run, never before the cursor, a forward jump only "
              "after a drop report, data_size_ret and avail == bytes returned) runs after every read, table/position invariants after every command. "
              "Non-trivial: >=1 wrap and a read by a reader whose unread data was overwritten, or a FRAG commit (leading offset / gap), or the round "
              "counter crossing SIZE_MAX->0. distinct = distinct fingerprints of whole non-trivial histories, max over variants."),
        assumptions=["the writer commits only inside the region wbuf_get returned (offset + size <= returned size, size >= min_block) and writes only what it commits",
                     "a reader step is data_get immediately followed by rpos_inc(k <= bytes returned); no writer step in between",
                     "min_block_size <= size/4; r_buf_rpos_cmp / r_buf_rpos_calc_size / r_buf_rpos_init_near / r_buf_data_get_conv2off are not exercised",
                     "where a new reader starts after rpos_init(data_size) is not asserted (only that what it then receives is an in-order run of the stream)"],
    )


MANIFEST = {"C19": dict(
    engine="rc-state",
    technique="rapidcheck command-sequence generation against an absolute-offset byte-stream model, read oracle after every read, 4 build variants (ASan+UBSan)",
    text=("Generated-input search: histories of writer steps (get, commit with/without leading offset, wrap at every residue, several blocks per buffer) "
          "interleaved with up to four readers that fall one, two or many rounds behind, with the round counter optionally starting just below SIZE_MAX, "
          "are executed on src/utils/ring_buffer.c; every byte handed to a reader is mapped back to its absolute stream offset and must continue the "
          "reader's cursor in order without repetition, a forward jump requires a drop report, every region must lie inside the ring, and "
          "data_avail_size / data_size_ret must equal the bytes a read returns."),
    design_ref="DESIGN.md section 4 C19",
    note=("Sampling, not proof. Single-threaded histories only (the ring has no locking of its own); the exact drop_size == skipped relation is "
          "measured in the evidence labels, asserted only as 'a forward jump needs a preceding drop report' (notes/C19.md)."),
)}
