# C17 -- the INI store behaves like an ordered map and survives a text round trip.
from .core import Variant
from .registry import prop


def variants(tier, seed):
    return [
        Variant("gccO2", "gcc", ["-O2"], seed_off=0),
        Variant("clangO2", "clang", ["-O2"], seed_off=1),
        Variant("gccO0", "gcc", ["-O0"], seed_off=2),
        Variant("clangO1_asan", "clang", ["-O1"], san=True, seed_off=3),
    ]


@prop("C17")
def c17():
    return dict(
        units=[dict(kind="rc", driver="C17_ini",
                    shims=["ini_shim.c", "repo:src/utils/ini.c", "repo:src/utils/buf_str.c"],
                    variants=variants, scale={"quick": 1.0, "thorough": 12.0})],
        level="exploration",
        rule=("One case = one history of 1..40 commands (parse of grammar-generated INI text, set / set_int / set_uint with value lengths aimed at the "
              "allocation edge of the line they replace, get / geti (+_int/_uint), sect_find[i], sect_val_find[i], gen into buffers of size "
              "{0,1,size-1,size,size+1,random}, gen->destroy->create->parse) run against ini.c in 4 build variants and against an ordered-line-list "
              "model; after EVERY command calc_size, gen(exact buffer) and the full sect_enum/sect_val_enum walk are compared with the model. "
              "Histories come from four classes: unique names (50%), names differing only in case (22%), duplicate names (18%), arguments no INI "
              "text can carry (10%, model-free invariants only). Non-trivial: the history has a replacing set that shrinks the value or crosses the "
              "line's allocation size, or an insert in front of trailing blank lines, or a gen/parse round trip of a non-empty store. "
              "distinct = distinct fingerprints of whole non-trivial histories, max over variants (variants use different seeds)."),
        assumptions=["section and key names are non-empty, contain no NUL/CR/LF, keys contain no '=' and do not start with ';', '#', '[' (what the "
                     "name=value text format can carry and the size-0-means-strlen calling convention can address); values contain no LF; "
                     "parsed text contains no NUL byte. Arguments outside this set are generated (class 'wild') but only model-free invariants are asserted",
                     "set inserts a new key at the end of its section in front of trailing blank lines and a new section at the end of the store "
                     "(the code's own comments)", "get_int/get_uint are compared only when the stored text is a canonical decimal of the type"],
    )


MANIFEST = {"C17": dict(
    engine="rc-state",
    technique="rapidcheck command-sequence generation against an ordered-line-list model, whole-store invariant after every command, 4 build variants (ASan+UBSan)",
    text=("Generated-input search: histories of parse/set/get/find/gen/round-trip commands over generated section names, keys and values (empty, "
          "4 KiB, growing/shrinking across the per-line allocation) are executed on src/utils/ini.c and on an independent model; lookups must return "
          "the most recently parsed/set value with the requested case sensitivity, enumeration must follow file order, calc_size must equal the bytes "
          "gen writes, gen into a smaller buffer must fail inside its bounds (canary-checked), and gen->parse must give an equal store."),
    design_ref="DESIGN.md section 4 C17",
    note=("Sampling, not proof. Allocation failures are not injected (the NULL-line paths of ini.c stay unexercised). Names the text format cannot carry "
          "are outside the asserted domain (notes/C17.md)."),
)}
