#!/usr/bin/env python3
"""Maintainer aid for the seeded-change exercises (DESIGN.md section 10).

usage: tools_seedbatch.py <prefix> <suffix> Cxx [Cxx ...]
  <prefix>  scratch prefix used by the blind agents: worktree /tmp/<prefix>-Cxx, output /tmp/<prefix>-Cxx-out
  <suffix>  name suffix under seeded/ ("" -> seeded/Cxx, "_5" -> seeded/Cxx_5)

For every property: (1) builds the author's demo.c against the patched worktree and against a clean export of /repo HEAD
and records both verdicts, (2) copies patch.diff / demo / meta.json to seeded/<name>/, (3) runs seed_eval.sh <name>
(quick check against a scratch worktree with the patch), (4) writes verified_by_maintainer into meta.json and prints a
DESIGN.md table row. Nothing under /repo is modified; scratch trees are removed by seed_eval.sh.
"""
import json, os, re, subprocess, sys

DEFS = ("-DHAVE_ACCEPT4 -DHAVE_EXPLICIT_BZERO -DHAVE_MEMMEM -DHAVE_MEMRCHR -DHAVE_PIPE2 -DHAVE_POSIX_SPAWN_FILE_ACTIONS_ADDCLOSEFROM_NP "
        "-DHAVE_PTHREAD_SETNAME_NP -DHAVE_REALLOCARRAY -DHAVE_SOCK_CLOEXEC -DHAVE_SOCK_NONBLOCK -DHAVE_STRNCASECMP -DLINUX -D_GNU_SOURCE -D__USE_GNU=1")


def sh(cmd, **kw):
    return subprocess.run(cmd, shell=True, capture_output=True, text=True, **kw)


def demo_sources(demo_c):
    head = open(demo_c, errors="replace").read()[:6000]
    return sorted(set(re.findall(r"src/[A-Za-z0-9_/]+\.c", head)))


def run_demo(prefix, p, clean):
    out = "/tmp/%s-%s-out" % (prefix, p)
    res = {}
    for which, tree in (("patched", "/tmp/%s-%s" % (prefix, p)), ("clean", clean)):
        srcs = " ".join("%s/%s" % (tree, s) for s in demo_sources(out + "/demo.c"))
        exe = "%s/demo_%s" % (out, which)
        b = sh("cc -O2 -msse4.1 -pthread %s -I%s/include %s/demo.c %s -o %s -w" % (DEFS, tree, out, srcs, exe))
        if b.returncode != 0:
            res[which] = "BUILD FAILED: " + b.stderr.strip().splitlines()[-1][:200] if b.stderr.strip() else "BUILD FAILED"
            continue
        try:
            r = sh("timeout 300 " + exe)
            last = (r.stdout.strip().splitlines() or [""])[-1][:160]
            res[which] = "exit=%d %s" % (r.returncode, last)
        except Exception as e:  # pragma: no cover
            res[which] = "error %s" % e
    return res


def main():
    prefix, suffix, props = sys.argv[1], sys.argv[2], sys.argv[3:]
    clean = "/tmp/%s-clean" % prefix
    sh("rm -rf %s && mkdir -p %s && git -C /repo archive HEAD | tar -x -C %s" % (clean, clean, clean))
    rows = []
    for p in props:
        name = p + suffix
        out = "/tmp/%s-%s-out" % (prefix, p)
        if not os.path.exists(out + "/patch.diff"):
            print("%s: no patch.diff, skipped" % p)
            continue
        demo = run_demo(prefix, p, clean)
        d = "/verif/seeded/" + name
        os.makedirs(d, exist_ok=True)
        for f in ("patch.diff", "demo.c", "demo.sh", "meta.json"):
            if os.path.exists(out + "/" + f):
                sh("cp %s/%s %s/" % (out, f, d))
        ev = sh("cd /verif && ./seed_eval.sh " + name)
        m = re.search(r"check exit=(\d+) wall=(\d+)s", ev.stdout)
        ex, wall = (int(m.group(1)), int(m.group(2))) if m else (None, None)
        reasons = re.findall(r"reason: (.*)", ev.stdout)[:2]
        meta = json.load(open(d + "/meta.json"))
        meta["verified_by_maintainer"] = {"demo": demo, "check": "./seed_eval.sh %s -> ./check %s --tier quick exit %s, %s s" % (name, p[:3], ex, wall),
                                          "first_reasons": reasons, "note": ""}
        json.dump(meta, open(d + "/meta.json", "w"), indent=1)
        summ = meta.get("summary", "")[:160].replace("|", "/").replace("\n", " ")
        r = reasons[0][:170].replace("|", "/") if reasons else ""
        rows.append("| `seeded/%s`: %s | %s | `./check %s` — %s | quick, exit %s, %s s |" % (name, summ, p[:3], p[:3], r, ex, wall))
        print("%s: demo patched [%s] clean [%s]; check exit=%s wall=%ss %s" % (name, demo.get("patched"), demo.get("clean"), ex, wall, (reasons[0][:200] if reasons else "NOT REPORTED")))
    sh("rm -rf " + clean)
    open("/tmp/%s_rows.md" % prefix, "w").write("\n".join(rows) + "\n")
    print("rows for DESIGN.md section 10: /tmp/%s_rows.md" % prefix)


if __name__ == "__main__":
    main()
