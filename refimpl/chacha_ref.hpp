// chacha_ref.hpp -- spec-derived reference for ChaCha (D. J. Bernstein, "ChaCha,
// a variant of Salsa20", 2008; RFC 8439 section 2.1-2.4 for the 20-round
// quarter round / block function), HChaCha (draft-irtf-cfrg-xchacha section 2.2)
// and XChaCha.  Written for C08; shares no code with /repo.
//
// Conventions (original DJB layout, which is what liblcb documents):
//   word 0..3   constants "expand 32-byte k" (256-bit key) or "expand 16-byte k"
//               (128-bit key, the key is used twice)
//   word 4..11  key
//   word 12..13 64-bit block counter, little endian, carries from 12 into 13,
//               wraps modulo 2^64 (never carries into the nonce)
//   word 14..15 64-bit nonce ("iv")
// The RFC 8439 layout (32-bit counter + 96-bit nonce) is the same state with
// counter64 = ctr32 | nonce[0..3] << 32 and iv = nonce[4..11].
//
// Deliberately slow and simple: one byte of key stream at a time is addressable
// by absolute stream offset, so the driver can check any split of the stream.
#pragma once
#include <cstddef>
#include <cstdint>
#include <cstring>
#include <vector>

namespace chacha_ref {

typedef std::vector<uint8_t> Bytes;

inline uint32_t rd32(const uint8_t *p) {
  uint32_t v = 0;
  for (int i = 3; i >= 0; i--) v = (v << 8) | p[i];
  return v;
}
inline void wr32(uint8_t *p, uint32_t v) {
  for (int i = 0; i < 4; i++) { p[i] = (uint8_t)(v & 0xff); v >>= 8; }
}
inline uint32_t rol(uint32_t v, unsigned n) { return (v << n) | (v >> (32u - n)); }

struct State { uint32_t w[16]; };

inline void qr(State &s, int a, int b, int c, int d) {
  uint32_t *x = s.w;
  x[a] = x[a] + x[b]; x[d] = rol(x[d] ^ x[a], 16);
  x[c] = x[c] + x[d]; x[b] = rol(x[b] ^ x[c], 12);
  x[a] = x[a] + x[b]; x[d] = rol(x[d] ^ x[a], 8);
  x[c] = x[c] + x[d]; x[b] = rol(x[b] ^ x[c], 7);
}
// "rounds" counts single rounds: one column round + one diagonal round = 2.
inline void permute(State &s, int rounds) {
  for (int r = 0; r < rounds; r += 2) {
    qr(s, 0, 4, 8, 12); qr(s, 1, 5, 9, 13); qr(s, 2, 6, 10, 14); qr(s, 3, 7, 11, 15);
    qr(s, 0, 5, 10, 15); qr(s, 1, 6, 11, 12); qr(s, 2, 7, 8, 13); qr(s, 3, 4, 9, 14);
  }
}

// key: 16 or 32 bytes; last16: the 16 bytes placed in words 12..15
inline State setup(const uint8_t *key, size_t keylen, const uint8_t last16[16]) {
  State s;
  const char *c = (keylen == 32) ? "expand 32-byte k" : "expand 16-byte k";
  for (int i = 0; i < 4; i++) s.w[i] = rd32((const uint8_t *)c + 4 * i);
  for (int i = 0; i < 4; i++) s.w[4 + i] = rd32(key + 4 * i);
  const uint8_t *hi = (keylen == 32) ? key + 16 : key;
  for (int i = 0; i < 4; i++) s.w[8 + i] = rd32(hi + 4 * i);
  for (int i = 0; i < 4; i++) s.w[12 + i] = rd32(last16 + 4 * i);
  return s;
}

// One 64-byte key-stream block for block number `counter`. iv == nullptr -> zero nonce.
inline void block(const uint8_t *key, size_t keylen, uint64_t counter, const uint8_t *iv8, int rounds,
                  uint8_t out[64]) {
  uint8_t last[16];
  for (int i = 0; i < 8; i++) last[i] = (uint8_t)(counter >> (8 * i));
  if (iv8) memcpy(last + 8, iv8, 8); else memset(last + 8, 0, 8);
  State in = setup(key, keylen, last), x = in;
  permute(x, rounds);
  for (int i = 0; i < 16; i++) wr32(out + 4 * i, x.w[i] + in.w[i]);
}

// HChaCha: words 0..3 and 12..15 of the permuted state, no feed-forward.
// iv16 == nullptr -> zero input.
inline void hchacha(const uint8_t *key, size_t keylen, const uint8_t *iv16, int rounds, uint8_t out[32]) {
  uint8_t z[16] = {0};
  State x = setup(key, keylen, iv16 ? iv16 : z);
  permute(x, rounds);
  for (int i = 0; i < 4; i++) wr32(out + 4 * i, x.w[i]);
  for (int i = 0; i < 4; i++) wr32(out + 16 + 4 * i, x.w[12 + i]);
}

// Parameters of one stream. x: XChaCha (iv is 24 bytes) as defined in the header
// under test: xchacha(key, counter, iv) = chacha(hchacha(key, iv[0:15]), counter, iv[16:23]).
struct Params {
  bool x = false;
  int rounds = 20;
  Bytes key;        // 16 or 32
  bool has_iv = true;
  Bytes iv;         // 8 (24 for x)
  uint64_t counter = 0;
};

// key stream bytes [off, off+len) counted from the first byte of block `counter`.
inline Bytes keystream(const Params &p, uint64_t off, size_t len) {
  Bytes k = p.key;
  uint8_t iv8[8] = {0};
  if (p.x) {
    uint8_t sub[32];
    hchacha(p.key.data(), p.key.size(), p.has_iv ? p.iv.data() : nullptr, p.rounds, sub);
    k.assign(sub, sub + 32);
    if (p.has_iv) memcpy(iv8, p.iv.data() + 16, 8);
  } else if (p.has_iv) {
    memcpy(iv8, p.iv.data(), 8);
  }
  Bytes out(len);
  uint8_t blk[64];
  uint64_t cur = ~(uint64_t)0;
  bool have = false;
  for (size_t i = 0; i < len; i++) {
    uint64_t pos = off + i, bno = p.counter + pos / 64;  // wraps modulo 2^64
    if (!have || bno != cur) { block(k.data(), k.size(), bno, iv8, p.rounds, blk); cur = bno; have = true; }
    out[i] = blk[pos % 64];
  }
  return out;
}

}  // namespace chacha_ref
