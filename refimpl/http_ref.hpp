// http_ref.hpp -- reference side of property C20 (HTTP request parsing and
// smuggling checks agree with RFC 7230).
//
//  * a grammar-directed generator that KNOWS THE PARSE: messages are produced
//    from the RFC 7230 section 3 / RFC 3986 section 3 productions and every
//    element's span is recorded while the bytes are appended, so no second
//    parser is needed for well-formed input;
//  * the single smuggling edits of DESIGN.md section 4 C20;
//  * a small reference for the rules listed in the comment of http_req_sec_chk
//    (rules 1-2 by scanning bytes, rules 3-7 by counting the RECORDED fields).
//
// Independent of rapidcheck and of liblcb: randomness comes in through `Pick`.
#pragma once
#include <cstdint>
#include <cstring>
#include <functional>
#include <string>
#include <vector>

namespace httpref {

typedef std::function<unsigned(unsigned)> Pick;  // pick(n) in [0, n)

struct Span {
  long off = -1, len = 0;
  bool present() const { return off >= 0; }
};
struct Field {
  Span name;   // field-name
  Span val;    // field-value after OWS trimming, folded lines included raw; len 0 = empty
  Span line;   // name .. end of the last (folded) line, without the terminating CRLF
  int folds = 0;
};
struct QPiece {  // one '&'-separated, non-empty piece of the query
  long off = 0, len = 0, name_len = 0;
  int has_eq = 0;
};
enum Form { ORIGIN = 0, ABSOLUTE = 1, AUTHORITY = 2, ASTERISK = 3 };
enum Edit { E_NONE = 0, E_CTRL = 1, E_SPCOLON = 2, E_DUP_HOST = 3, E_DUP_CL = 4, E_DUP_TE = 5, E_BOTH = 6, E_CL_GET = 7 };

struct Msg {
  std::string buf;
  int is_resp = 0;
  int spans_valid = 1;  // 0 after a byte-level edit: only the security verdict is asserted
  // request line
  Span method, uri, scheme, host, path, query;  // path = as written (before the library's slash trimming); query present iff '?' written
  int form = ORIGIN;
  unsigned method_code = 0;
  int vmaj = 1, vmin = 1;
  long line_size = 0;
  // status line
  unsigned status = 0;
  Span reason;
  std::vector<Field> fields;
  std::vector<QPiece> qpieces;  // offsets relative to query.off
  int layout = 0;               // 0: nothing after the last field (what http_server.c passes), 1: CRLF, 2: CRLFCRLF
  int edit = E_NONE;
  int edit_byte = 0;
};

// ---- method table (RFC 7231 section 4 + UPnP), codes as published in include/proto/http.h
inline unsigned method_code_of(const std::string &m) {
  static const char *tbl[] = {nullptr, "OPTIONS", "GET", "HEAD", "POST", "PUT", "DELETE", "TRACE", "CONNECT",
                              "NOTIFY", "M-SEARCH", "M-POST", "SUBSCRIBE", "UNSUBSCRIBE"};
  for (unsigned i = 1; i < sizeof(tbl) / sizeof(*tbl); i++)
    if (m == tbl[i]) return i;
  return 0;
}
enum { M_GET = 2, M_CONNECT = 8 };

inline bool ieq(const std::string &a, const std::string &b) {
  if (a.size() != b.size()) return false;
  for (size_t i = 0; i < a.size(); i++) {
    unsigned char x = (unsigned char)a[i], y = (unsigned char)b[i];
    if (x >= 'A' && x <= 'Z') x = (unsigned char)(x + 32);
    if (y >= 'A' && y <= 'Z') y = (unsigned char)(y + 32);
    if (x != y) return false;
  }
  return true;
}
inline std::string sub(const Msg &m, const Span &s) { return s.present() ? m.buf.substr((size_t)s.off, (size_t)s.len) : std::string(); }

// ---- reference for http_req_sec_chk: bit k set = rule k of the comment is violated
inline unsigned sec_violations(const Msg &m) {
  unsigned v = 0;
  const std::string &b = m.buf;
  for (size_t i = 0; i < b.size(); i++) {
    unsigned char c = (unsigned char)b[i];
    if (c == ' ' && i + 1 < b.size() && b[i + 1] == ':') v |= 1u << 1;  // 1. SP ':'
    if (c > 126) { v |= 1u << 2; continue; }                              // 2. control codes: > 126
    if (c >= 32 || c == '\t') continue;
    if (c == '\r' && i + 1 < b.size() && b[i + 1] == '\n') { i++; continue; }
    v |= 1u << 2;                                                         // 2. < 32, not CRLF, not tab
  }
  size_t host = 0, cl = 0, te = 0;
  for (auto &f : m.fields) {
    std::string n = sub(m, f.name);
    if (ieq(n, "host")) host++;
    if (ieq(n, "content-length")) cl++;
    if (ieq(n, "transfer-encoding")) te++;
  }
  if (host > 1) v |= 1u << 3;
  if (cl > 1) v |= 1u << 4;
  if (cl != 0 && m.method_code == M_GET) v |= 1u << 5;
  if (te > 1) v |= 1u << 6;
  if (cl != 0 && te != 0) v |= 1u << 7;
  return v;
}

// ------------------------------------------------------------------ generator
struct Gen {
  Pick pick;
  explicit Gen(Pick p) : pick(p) {}
  bool chance(unsigned num, unsigned den) { return pick(den) < num; }
  template <class T> const T &of(const std::vector<T> &v) { return v[pick((unsigned)v.size())]; }
  char from(const char *set) { return set[pick((unsigned)strlen(set))]; }

  std::string randcase(std::string s) {
    int mode = (int)pick(5);  // as is, lower, upper, random, random
    for (auto &c : s) {
      bool up = mode == 2 || (mode >= 3 && pick(2));
      bool lo = mode == 1 || (mode >= 3 && !up);
      if (mode == 0) continue;
      if (up && c >= 'a' && c <= 'z') c = (char)(c - 32);
      else if (lo && c >= 'A' && c <= 'Z') c = (char)(c + 32);
    }
    return s;
  }
  std::string token(unsigned minlen, unsigned maxlen, bool plain) {
    static const char *tch = "abcdefghijklmnopqrstuvwxyzABCDEFGHIJKLMNOPQRSTUVWXYZ0123456789-_!#$%&'*+.^`|~";
    static const char *pch = "abcdefghijklmnopqrstuvwxyzABCDEFGHIJKLMNOPQRSTUVWXYZ0123456789-";
    unsigned n = minlen + pick(maxlen - minlen + 1);
    std::string s;
    for (unsigned i = 0; i < n; i++) s.push_back(from(plain || pick(4) ? pch : tch));
    return s;
  }
  // ---- request target pieces
  std::string pct() {
    std::string s = "%";
    s.push_back(from("0123456789abcdefABCDEF"));
    s.push_back(from("0123456789abcdefABCDEF"));
    return s;
  }
  std::string segment() {  // RFC 3986 segment = *pchar
    static const char *pchar = "abcdefghijklmnopqrstuvwxyzABCDEFGHIJKLMNOPQRSTUVWXYZ0123456789-._~!$&'()*+,;=:@";
    unsigned n = pick(8) == 0 ? 0 : 1 + pick(pick(4) ? 6 : 20);
    std::string s;
    for (unsigned i = 0; i < n; i++) {
      if (pick(12) == 11) s += pct();
      else s.push_back(pick(3) != 2 ? from("abcdefghijklmnopqrstuvwxyz0123456789") : from(pchar));
    }
    if (pick(10) == 9) s += ":";  // "seg:" followed by a slash run looks like a scheme marker
    return s;
  }
  std::string slashes() { return std::string(pick(7) != 6 ? 1 : 2 + pick(2), '/'); }
  std::string path(bool may_be_empty) {
    unsigned k = pick(12);
    if (may_be_empty && k == 0) return "";
    if (k == 1) return "/";
    if (k == 2) return std::string(2 + pick(3), '/');
    std::string p = slashes();
    unsigned nseg = 1 + pick(4);
    for (unsigned i = 0; i < nseg; i++) {
      std::string s = segment();
      if (s.empty() && i == 0) s = "a";
      p += s;
      if (i + 1 < nseg) p += slashes();
    }
    if (pick(3) == 2) p += slashes();  // trailing slash run
    return p;
  }
  std::string qname() {
    static const std::vector<std::string> common = {"a", "b", "id", "login", "password", "q", "user", "x-y", "k1", "token"};
    // RFC 3986: query = *( pchar / "/" / "?" ) - a key may begin with a slash (seen in redirect targets such as "?/next=1")
    static const std::vector<std::string> slashed = {"/next", "//cdn/x", "/", "/a/b", "?x", "/?"};
    if (pick(9) == 8) return of(slashed);
    return pick(3) ? of(common) : token(1, 6, true);
  }
  std::string qvalue() {
    static const char *qch = "abcdefghijklmnopqrstuvwxyzABCDEFGHIJKLMNOPQRSTUVWXYZ0123456789-._~!$'()*+,;:@/?";
    unsigned k = pick(10);
    if (k == 0) return "";
    if (k == 1) return of(std::vector<std::string>{"http://example.com/x", "https://h/", "a://b", "//x", "x=y", "1=2=3"});
    std::string s;
    unsigned n = 1 + pick(8);
    for (unsigned i = 0; i < n; i++) {
      if (pick(10) == 9) s += pct();
      else s.push_back(pick(3) != 2 ? from("abcdefghijklmnopqrstuvwxyz0123456789") : from(qch));
    }
    return s;
  }
  // appends "?query" to m.buf and records the pieces
  void query(Msg &m) {
    m.buf += "?";
    m.query.off = (long)m.buf.size();
    unsigned k = pick(8);
    unsigned npieces = k == 0 ? 0 : 1 + pick(4);
    std::string q;
    if (npieces && pick(8) == 7) q += std::string(1 + pick(2), '&');  // leading '&'
    for (unsigned i = 0; i < npieces; i++) {
      QPiece p;
      std::string n = qname();
      p.off = (long)q.size();
      p.name_len = (long)n.size();
      p.has_eq = pick(7) != 6;
      q += n;
      if (p.has_eq) q += "=" + qvalue();
      p.len = (long)q.size() - p.off;
      m.qpieces.push_back(p);
      if (i + 1 < npieces) q += std::string(pick(6) != 5 ? 1 : 2 + pick(2), '&');
    }
    if (npieces && pick(8) == 7) q += "&";  // trailing '&'
    m.buf += q;
    m.query.len = (long)q.size();
  }
  std::string reg_host() {
    static const std::vector<std::string> hosts = {"example.com", "localhost", "a", "www.example.org", "xn--nxasmq6b.test", "h-1.example", "EXAMPLE.COM", "127.0.0.1",
                                                   "192.0.2.10",  "[::1]",     "[2001:db8::1]", "[::ffff:192.0.2.1]"};
    return of(hosts);
  }
  std::string authority() {
    std::string h = reg_host();
    if (pick(3) == 2) h += ":" + std::to_string(pick(2) ? 80 + pick(8000) : pick(65536));
    return h;
  }
  std::string method_token(unsigned *code) {
    static const std::vector<std::string> known = {"OPTIONS", "GET", "HEAD", "POST", "PUT", "DELETE", "TRACE", "NOTIFY", "M-SEARCH", "M-POST", "SUBSCRIBE", "UNSUBSCRIBE"};
    static const std::vector<std::string> near = {"GEX", "PUX", "POSX", "HEAX", "TRACX", "DELETX", "NOTIFX", "M-POSX", "OPTIONX", "CONNECX", "M-SEARCX", "SUBSCRIBX", "UNSUBSCRIBX",
                                                  "Get",  "GeT",  "Post", "GETT", "GE",    "PATCH",  "PROPFIND", "MKCOL", "PURGE",  "LINK",    "M-SEARCHX", "OPTION", "UNSUBSCRIBE1", "G", "PO"};
    std::string m;
    unsigned k = pick(10);
    if (k < 3) m = "GET";
    else if (k < 7) m = of(known);
    else if (k < 9) m = of(near);
    else {  // RFC 7230 token; the library documents that a request line starts with 'A'..'Z'
      m = token(1, 10, false);
      m[0] = from("ABCDEFGHIJKLMNOPQRSTUVWXYZ");
    }
    if (method_code_of(m) == M_CONNECT) m = "CONNECX";  // CONNECT is only produced together with the authority form
    *code = method_code_of(m);
    return m;
  }

  // ---- header fields
  std::string ows() {
    static const std::vector<std::string> w = {"", " ", " ", " ", "\t", "  ", " \t", "\t "};
    return of(w);
  }
  std::string value_text(int kind) {
    if (kind == 1) return authority();
    if (kind == 2) return std::to_string(pick(3) ? pick(100000) : 0);
    if (kind == 3) return of(std::vector<std::string>{"chunked", "gzip, chunked", "Chunked", "identity", "deflate,chunked"});
    static const char *vch = "abcdefghijklmnopqrstuvwxyzABCDEFGHIJKLMNOPQRSTUVWXYZ0123456789!\"#$%&'()*+,-./:;<=>?@[\\]^_`{|}~";
    unsigned words = pick(6) == 0 ? 0 : 1 + pick(4);
    std::string s;
    for (unsigned i = 0; i < words; i++) {
      unsigned n = 1 + pick(10);
      for (unsigned j = 0; j < n; j++) s.push_back(pick(4) ? from("abcdefghijklmnopqrstuvwxyz0123456789=/,;") : from(vch));
      if (i + 1 < words) s += pick(4) ? " " : of(std::vector<std::string>{"\t", "  ", ", ", " \t "});
    }
    return s;
  }
  // renders one field at the end of m.buf (no terminating CRLF) and records it
  void field(Msg &m, const std::string &name, int kind, bool allow_fold) {
    Field f;
    f.line.off = f.name.off = (long)m.buf.size();
    f.name.len = (long)name.size();
    m.buf += name;
    m.buf += ":";
    size_t vstart = m.buf.size();
    std::string v = value_text(kind);
    std::string out;
    if (allow_fold && pick(14) == 13) {  // fold directly after the colon
      out += "\r\n" + std::string(1, from(" \t")) + ows();
      f.folds++;
    } else out += ows();
    for (size_t i = 0; i < v.size(); i++) {
      // obs-fold = CRLF 1*( SP / HTAB ) in place of (or next to) inner white space
      if (allow_fold && (v[i] == ' ' || v[i] == '\t') && pick(9) == 8) {
        out += "\r\n";
        f.folds++;
      }
      out.push_back(v[i]);
    }
    out += ows();
    if (allow_fold && pick(24) == 23) {  // trailing continuation line holding white space only
      out += "\r\n" + std::string(1 + pick(2), from(" \t"));
      f.folds++;
    }
    // a space directly before a colon is smuggling rule 1 wherever it occurs: grammar blocks never contain it
    for (size_t i = 0; i + 1 < out.size(); i++)
      if (out[i] == ' ' && out[i + 1] == ':') out[i + 1] = ';';
    m.buf += out;
    f.line.len = (long)m.buf.size() - f.line.off;
    size_t b = vstart, e = m.buf.size();
    while (b < e && (unsigned char)m.buf[b] < 33) b++;
    while (e > b && (unsigned char)m.buf[e - 1] < 33) e--;
    f.val.off = (long)b;
    f.val.len = (long)(e - b);
    m.fields.push_back(f);
  }
  std::string other_name() {
    static const std::vector<std::string> common = {"Accept", "Accept-Encoding", "User-Agent", "Connection", "Cookie", "X-Forwarded-For", "Cache-Control", "ST", "MX", "MAN",
                                                    "Authorization", "Referer", "Via", "X", "Set-Cookie", "Accept-Language", "If-None-Match", "x-a_b!#$%&'*+.^`|~1"};
    // names that only LOOK like the three framing/routing fields: must never be counted as them
    static const std::vector<std::string> lookalike = {"Host-Extra", "X-Host", "Hostx", "Hos", "Hosts", "Content-Length-Foo", "X-Content-Length", "Content-Lengt", "Content_Length",
                                                       "ContentLength", "Transfer-Encodin", "Transfer-Encoding2", "X-Transfer-Encoding", "Transfer_Encoding", "TE", "Content-Lengthh"};
    unsigned k = pick(10);
    std::string n = k < 5 ? of(common) : k < 8 ? of(lookalike) : token(1, 12, false);
    if (ieq(n, "host") || ieq(n, "content-length") || ieq(n, "transfer-encoding")) n += "-x";
    return randcase(n);
  }

  // ---- whole messages
  // header plan: names (kind 0 = other, 1 = Host, 2 = Content-Length, 3 = Transfer-Encoding) in order
  struct Plan { std::string name; int kind; };
  void insert_at_random(std::vector<Plan> &pl, const Plan &p) { pl.insert(pl.begin() + pick((unsigned)pl.size() + 1), p); }

  void finish_fields(Msg &m, const std::vector<Plan> &pl) {
    for (size_t i = 0; i < pl.size(); i++) {
      m.buf += "\r\n";
      field(m, pl[i].name, pl[i].kind, true);
    }
    m.layout = (int)(pick(10) < 6 ? 0 : 1 + pick(2));
    if (m.layout == 1) m.buf += "\r\n";
    if (m.layout == 2) m.buf += "\r\n\r\n";
  }

  Msg request(int edit) {
    Msg m;
    m.edit = edit;
    std::string meth = method_token(&m.method_code);
    if (edit == E_CL_GET) { meth = "GET"; m.method_code = M_GET; }
    if ((edit == E_BOTH || edit == E_DUP_CL) && m.method_code == M_GET) { meth = "POST"; m.method_code = method_code_of("POST"); }
    bool connect = edit == E_NONE && pick(12) == 0;
    if (connect) { meth = "CONNECT"; m.method_code = M_CONNECT; }
    m.method.off = 0;
    m.method.len = (long)meth.size();
    m.buf = meth + " ";
    m.uri.off = (long)m.buf.size();
    if (connect) {
      m.form = AUTHORITY;
      m.host.off = (long)m.buf.size();
      std::string a = reg_host() + ":" + std::to_string(pick(2) ? 443 : pick(65536));
      m.buf += a;
      m.host.len = (long)a.size();
    } else if ((meth == "OPTIONS" || meth == "M-SEARCH") && pick(2)) {
      m.form = ASTERISK;
      m.path.off = (long)m.buf.size();
      m.path.len = 1;
      m.buf += "*";
    } else {
      m.form = pick(10) >= 7 ? ABSOLUTE : ORIGIN;
      if (m.form == ABSOLUTE) {
        static const std::vector<std::string> schemes = {"http", "http", "https", "HTTP", "ftp", "ws", "x-y+z.1", "h"};
        std::string s = of(schemes);
        m.scheme.off = (long)m.buf.size();
        m.scheme.len = (long)s.size();
        m.buf += s + "://";
        std::string a = authority();
        m.host.off = (long)m.buf.size();
        m.host.len = (long)a.size();
        m.buf += a;
      }
      std::string p = path(m.form == ABSOLUTE);
      m.path.off = (long)m.buf.size();
      m.path.len = (long)p.size();
      m.buf += p;
      if (pick(5) >= 3) query(m);
    }
    m.uri.len = (long)m.buf.size() - m.uri.off;
    m.vmaj = (int)(pick(4) ? 1 : pick(10));
    m.vmin = (int)(pick(4) ? pick(2) : pick(10));
    m.buf += " HTTP/" + std::to_string(m.vmaj) + "." + std::to_string(m.vmin);
    m.line_size = (long)m.buf.size();

    // base header plan: at most one Host / Content-Length / Transfer-Encoding, never both framing fields, no body length on GET
    std::vector<Plan> pl;
    unsigned nother = pick(8) == 0 ? 0 : pick(6);
    for (unsigned i = 0; i < nother; i++) {
      std::string n = other_name();
      pl.push_back({n, 0});
      if (pick(5) == 4) insert_at_random(pl, {randcase(n), 0});  // repeated ordinary field, any case
    }
    bool host = pick(4) != 0, cl = false, te = false;
    if (m.method_code != M_GET) {
      unsigned fr = pick(4);
      cl = fr == 1;
      te = fr == 2;
    }
    switch (edit) {
    case E_DUP_HOST: host = true; break;
    case E_DUP_CL: cl = true; te = false; break;
    case E_DUP_TE: te = true; cl = false; break;
    case E_BOTH: cl = te = true; break;
    case E_CL_GET: cl = true; te = false; break;
    default: break;
    }
    if (host) insert_at_random(pl, {randcase("Host"), 1});
    if (cl) insert_at_random(pl, {randcase("Content-Length"), 2});
    if (te) insert_at_random(pl, {randcase("Transfer-Encoding"), 3});
    if (edit == E_DUP_HOST) insert_at_random(pl, {randcase("Host"), 1});
    if (edit == E_DUP_CL) insert_at_random(pl, {randcase("Content-Length"), 2});
    if (edit == E_DUP_TE) insert_at_random(pl, {randcase("Transfer-Encoding"), 3});
    if (edit == E_SPCOLON && pl.empty()) pl.push_back({other_name(), 0});
    if (edit == E_SPCOLON) {
      // SP before the colon of one field (any field, the routing/framing ones preferred)
      size_t idx = pick((unsigned)pl.size());
      for (size_t i = 0; i < pl.size(); i++)
        if (pl[i].kind != 0 && pick(2)) idx = i;
      pl[idx].name += std::string(1 + pick(2), ' ');
      m.spans_valid = 0;
    }
    finish_fields(m, pl);
    if (edit == E_CTRL) {
      // one control byte (0-8, 11, 12, 14-31, 127, >= 128) inserted at a random position
      static const std::vector<int> lows = {0, 1, 2, 3, 4, 5, 6, 7, 8, 11, 12, 14, 15, 16, 17, 18, 19, 20, 21, 22, 23, 24, 25, 26, 27, 28, 29, 30, 31, 127};
      int c = pick(3) ? of(lows) : (int)(128 + pick(128));
      size_t pos = pick((unsigned)m.buf.size() + 1);
      m.buf.insert(m.buf.begin() + (long)pos, (char)c);
      m.edit_byte = c;
      m.spans_valid = 0;
    }
    return m;
  }

  Msg response() {
    Msg m;
    m.is_resp = 1;
    m.vmaj = (int)(pick(4) ? 1 : pick(10));
    m.vmin = (int)(pick(4) ? pick(2) : pick(10));
    static const std::vector<unsigned> codes = {100, 101, 200, 204, 206, 301, 304, 400, 404, 418, 500, 505, 599, 999, 0, 7, 42};
    m.status = pick(3) ? of(codes) : pick(1000);
    char st[8];
    snprintf(st, sizeof st, "%03u", m.status);
    m.buf = "HTTP/" + std::to_string(m.vmaj) + "." + std::to_string(m.vmin) + " " + st + " ";
    m.reason.off = (long)m.buf.size();
    static const std::vector<std::string> reasons = {"OK", "Not Found", "Partial Content", "", "X", " padded ", "Moved\tPermanently", "I'm a teapot", "HTTP/1.1 200 OK", "a: b"};
    std::string r = pick(4) ? of(reasons) : value_text(0);
    m.buf += r;
    m.reason.len = (long)r.size();
    m.line_size = (long)m.buf.size();
    std::vector<Plan> pl;
    unsigned n = pick(6);
    for (unsigned i = 0; i < n; i++) {
      std::string nm = pick(4) ? other_name() : randcase(of(std::vector<std::string>{"Content-Length", "Content-Type", "Server", "Date", "Location", "Transfer-Encoding"}));
      pl.push_back({nm, 0});
      if (pick(5) == 0) insert_at_random(pl, {randcase(nm), 0});
    }
    finish_fields(m, pl);
    return m;
  }
};

}  // namespace httpref
