// ecdsa_ref.hpp -- small standard-derived reference for C03 / C09 (owner: C03/C09).
//
// Independent of liblcb: textbook affine group law on y^2 = x^3 + ax + b over F_p with
// GMP integers, written from
//   * SEC 1 v2.0  2.2.1 (group law), 2.3.3 / 2.3.4 (point <-> octet string, incl. the
//     square root needed for compressed points), 3.2.2.1 (public key validation),
//     3.3.1 / 3.3.2 (ECDH and cofactor ECDH), 4.1.3 / 4.1.4 (ECDSA sign / verify),
//   * FIPS 186-4 6.4 + ANS X9.62 (message representative = leftmost min(hashbits, nbits)
//     bits of the hash),
//   * GOST R 34.10-2012 section 6.1 / 6.2 (sign / verify; alpha = integer of the hash,
//     e = alpha mod q, e = 0 -> 1).
// Anchored at driver start on published vectors (X9.62 J.3, RFC 6979 A.2.5, GOST R
// 34.10-2012 annex A.1 / A.2).  No liblcb header is included here.
#pragma once
#include <gmpxx.h>
#include <cstdint>
#include <string>
#include <vector>

namespace ecref {

typedef mpz_class Z;
typedef std::vector<uint8_t> Bytes;

enum { ALGO_ECDSA = 0, ALGO_GOST = 1 };

struct Curve {
  std::string name;
  Z p, a, b, gx, gy, n;
  unsigned h = 1;
  unsigned m = 0;      // field size in bits as the table states it
  unsigned bytes = 0;  // ceil(m / 8): octets per field element
  int algo = ALGO_ECDSA;
  size_t nbits() const { return mpz_sizeinbase(n.get_mpz_t(), 2); }
  size_t nlen() const { return (nbits() + 7) / 8; }
};

struct Pt {
  bool inf = true;
  Z x, y;
  Pt() {}
  Pt(const Z &x_, const Z &y_) : inf(false), x(x_), y(y_) {}
  bool operator==(const Pt &o) const { return inf == o.inf && (inf || (x == o.x && y == o.y)); }
  bool operator!=(const Pt &o) const { return !(*this == o); }
};

inline Z mod(const Z &v, const Z &m) {
  Z r;
  mpz_mod(r.get_mpz_t(), v.get_mpz_t(), m.get_mpz_t());
  return r;
}
inline bool inv_mod(const Z &v, const Z &m, Z &out) {
  return mpz_invert(out.get_mpz_t(), v.get_mpz_t(), m.get_mpz_t()) != 0;
}

// ---------- octet strings ----------
inline Z os2ip(const uint8_t *p, size_t n) {
  Z z;
  if (n) mpz_import(z.get_mpz_t(), n, 1, 1, 0, 0, p);
  return z;
}
inline Z os2ip(const Bytes &b) { return os2ip(b.data(), b.size()); }
// fixed width, big endian; false when the value does not fit
inline bool i2osp(const Z &v, size_t len, Bytes &out) {
  out.assign(len, 0);
  if (v < 0) return false;
  size_t need = v == 0 ? 0 : (mpz_sizeinbase(v.get_mpz_t(), 2) + 7) / 8;
  if (need > len) return false;
  if (need) {
    size_t cnt = 0;
    mpz_export(out.data() + (len - need), &cnt, 1, 1, 0, 0, v.get_mpz_t());
  }
  return true;
}
inline Bytes i2osp(const Z &v, size_t len) {
  Bytes b;
  i2osp(v, len, b);
  return b;
}
inline Bytes reversed(const Bytes &b) { return Bytes(b.rbegin(), b.rend()); }

// ---------- group law (SEC 1 2.2.1) ----------
inline Z rhs(const Curve &c, const Z &x) { return mod(x * x * x + c.a * x + c.b, c.p); }
// coordinates in range and y^2 = x^3 + ax + b
inline bool on_curve(const Curve &c, const Pt &P) {
  if (P.inf) return true;
  if (P.x < 0 || P.x >= c.p || P.y < 0 || P.y >= c.p) return false;
  return mod(P.y * P.y, c.p) == rhs(c, P.x);
}
inline Pt neg(const Curve &c, const Pt &P) {
  if (P.inf) return P;
  return Pt(P.x, P.y == 0 ? Z(0) : Z(c.p - P.y));
}
inline Pt add(const Curve &c, const Pt &P, const Pt &Q) {
  if (P.inf) return Q;
  if (Q.inf) return P;
  Z lam, t;
  if (P.x == Q.x) {
    if (mod(P.y + Q.y, c.p) == 0) return Pt();  // P + (-P), also y = 0 doubling
    if (!inv_mod(mod(2 * P.y, c.p), c.p, t)) return Pt();
    lam = mod((3 * P.x * P.x + c.a) * t, c.p);
  } else {
    if (!inv_mod(mod(Q.x - P.x, c.p), c.p, t)) return Pt();
    lam = mod((Q.y - P.y) * t, c.p);
  }
  Z x3 = mod(lam * lam - P.x - Q.x, c.p);
  Z y3 = mod(lam * (P.x - x3) - P.y, c.p);
  return Pt(x3, y3);
}
// k >= 0, plain left-to-right double-and-add
inline Pt mul(const Curve &c, const Z &k, const Pt &P) {
  Pt R;
  if (k <= 0 || P.inf) return R;
  for (long i = (long)mpz_sizeinbase(k.get_mpz_t(), 2) - 1; i >= 0; i--) {
    R = add(c, R, R);
    if (mpz_tstbit(k.get_mpz_t(), (mp_bitcnt_t)i)) R = add(c, R, P);
  }
  return R;
}
inline Pt G(const Curve &c) { return Pt(c.gx, c.gy); }

// ---------- square roots mod an odd prime (Tonelli-Shanks, any p) ----------
inline bool sqrt_mod(const Z &a_in, const Z &p, Z &root) {
  Z a = mod(a_in, p);
  if (a == 0) { root = 0; return true; }
  if (mpz_legendre(a.get_mpz_t(), p.get_mpz_t()) != 1) return false;
  if (mpz_tstbit(p.get_mpz_t(), 0) && mpz_tstbit(p.get_mpz_t(), 1)) {  // p = 3 mod 4
    Z e = (p + 1) / 4;
    mpz_powm(root.get_mpz_t(), a.get_mpz_t(), e.get_mpz_t(), p.get_mpz_t());
    return true;
  }
  Z q = p - 1;
  unsigned s = 0;
  while (mpz_even_p(q.get_mpz_t())) { q /= 2; s++; }
  Z z = 2;
  while (mpz_legendre(z.get_mpz_t(), p.get_mpz_t()) != -1) z += 1;
  Z cc, r, t, e2 = (q + 1) / 2;
  mpz_powm(cc.get_mpz_t(), z.get_mpz_t(), q.get_mpz_t(), p.get_mpz_t());
  mpz_powm(r.get_mpz_t(), a.get_mpz_t(), e2.get_mpz_t(), p.get_mpz_t());
  mpz_powm(t.get_mpz_t(), a.get_mpz_t(), q.get_mpz_t(), p.get_mpz_t());
  unsigned mm = s;
  while (t != 1) {
    unsigned i = 0;
    Z tt = t;
    while (tt != 1) { tt = mod(tt * tt, p); i++; if (i >= mm) return false; }
    Z bb = cc;
    for (unsigned j = 0; j + i + 1 < mm; j++) bb = mod(bb * bb, p);
    r = mod(r * bb, p);
    cc = mod(bb * bb, p);
    t = mod(t * cc, p);
    mm = i;
  }
  root = r;
  return true;
}
// SEC 1 2.3.4 step 2.4: point with abscissa x whose y has parity ybit; false if none
inline bool lift_x(const Curve &c, const Z &x, int ybit, Pt &out) {
  if (x < 0 || x >= c.p) return false;
  Z y;
  if (!sqrt_mod(rhs(c, x), c.p, y)) return false;
  if ((int)mpz_tstbit(y.get_mpz_t(), 0) != (ybit & 1)) {
    if (y == 0) return false;  // no root of the requested parity
    y = c.p - y;
  }
  out = Pt(x, y);
  return true;
}

// ---------- SEC 1 2.3.3 / 2.3.4 (+ X9.62 hybrid) ----------
enum Form { F_COMPRESSED = 0, F_UNCOMPRESSED = 1, F_HYBRID = 2 };
inline Bytes encode(const Curve &c, const Pt &P, int form) {
  Bytes o;
  if (P.inf) { o.push_back(0); return o; }
  Bytes X = i2osp(P.x, c.bytes), Y = i2osp(P.y, c.bytes);
  int yb = (int)mpz_tstbit(P.y.get_mpz_t(), 0);
  if (form == F_COMPRESSED) {
    o.push_back((uint8_t)(2 + yb));
    o.insert(o.end(), X.begin(), X.end());
  } else {
    o.push_back(form == F_HYBRID ? (uint8_t)(6 + yb) : (uint8_t)4);
    o.insert(o.end(), X.begin(), X.end());
    o.insert(o.end(), Y.begin(), Y.end());
  }
  return o;
}
// 0 = decoded to a point ON the curve (or infinity); <0 = invalid octet string
enum { DEC_OK = 0, DEC_LEN = -1, DEC_PREFIX = -2, DEC_RANGE = -3, DEC_NOROOT = -4, DEC_OFFCURVE = -5, DEC_PARITY = -6 };
inline int decode(const Curve &c, const Bytes &o, Pt &out) {
  size_t L = c.bytes;
  if (o.size() == 1) {
    if (o[0] != 0) return DEC_PREFIX;
    out = Pt();
    return DEC_OK;
  }
  if (o.size() == L + 1) {
    if (o[0] != 2 && o[0] != 3) return DEC_PREFIX;
    Z x = os2ip(o.data() + 1, L);
    if (x >= c.p) return DEC_RANGE;
    return lift_x(c, x, o[0] & 1, out) ? DEC_OK : DEC_NOROOT;
  }
  if (o.size() == 2 * L + 1) {
    if (o[0] != 4 && o[0] != 6 && o[0] != 7) return DEC_PREFIX;
    Z x = os2ip(o.data() + 1, L), y = os2ip(o.data() + 1 + L, L);
    if (x >= c.p || y >= c.p) return DEC_RANGE;
    Pt P(x, y);
    if (!on_curve(c, P)) return DEC_OFFCURVE;
    if (o[0] != 4 && (int)mpz_tstbit(y.get_mpz_t(), 0) != (o[0] & 1)) return DEC_PARITY;
    out = P;
    return DEC_OK;
  }
  return DEC_LEN;
}
// the predicate of the C09 property text: neutral element, or on the curve (coordinates
// in range) and annihilated by n
inline bool neutral_or_valid(const Curve &c, const Pt &P) {
  if (P.inf) return true;
  if (!on_curve(c, P)) return false;
  return mul(c, c.n, P).inf;
}
// SEC 1 3.2.2.1: a valid public key is additionally not the neutral element
inline bool valid_pubkey(const Curve &c, const Pt &P) { return !P.inf && neutral_or_valid(c, P); }

// ---------- message representatives ----------
// FIPS 186-4 6.4 / SEC 1 4.1.3 step 5: leftmost min(8*len, nbits) bits of the hash
inline Z bits2int(const Curve &c, const Bytes &h) {
  Z e = os2ip(h);
  size_t hb = 8 * h.size(), nb = c.nbits();
  if (hb > nb) e >>= (hb - nb);
  return e;
}
// GOST R 34.10-2012 6.1 step 2
inline Z gost_e(const Curve &c, const Z &alpha) {
  Z e = mod(alpha, c.n);
  if (e == 0) e = 1;
  return e;
}

// ---------- ECDSA (SEC 1 4.1.3 / 4.1.4); e is the integer message representative ----------
inline bool ecdsa_sign(const Curve &c, const Z &d, const Z &e, const Z &k, Z &r, Z &s) {
  if (k <= 0 || k >= c.n) return false;
  Pt R = mul(c, k, G(c));
  if (R.inf) return false;
  r = mod(R.x, c.n);
  if (r == 0) return false;
  Z ki;
  if (!inv_mod(k, c.n, ki)) return false;
  s = mod(ki * (e + d * r), c.n);
  return s != 0;
}
// Q must already be a valid public key (caller decides); only the arithmetic part here
inline bool ecdsa_verify_raw(const Curve &c, const Pt &Q, const Z &e, const Z &r, const Z &s) {
  if (r < 1 || r >= c.n || s < 1 || s >= c.n) return false;
  Z w;
  if (!inv_mod(s, c.n, w)) return false;
  Z u1 = mod(e * w, c.n), u2 = mod(r * w, c.n);
  Pt R = add(c, mul(c, u1, G(c)), mul(c, u2, Q));
  if (R.inf) return false;
  return mod(R.x, c.n) == r;
}

// ---------- GOST R 34.10-2012 (6.1 / 6.2); alpha = integer of the hash ----------
inline bool gost_sign(const Curve &c, const Z &d, const Z &alpha, const Z &k, Z &r, Z &s) {
  if (k <= 0 || k >= c.n) return false;
  Z e = gost_e(c, alpha);
  Pt C = mul(c, k, G(c));
  if (C.inf) return false;
  r = mod(C.x, c.n);
  if (r == 0) return false;
  s = mod(r * d + k * e, c.n);
  return s != 0;
}
inline bool gost_verify_raw(const Curve &c, const Pt &Q, const Z &alpha, const Z &r, const Z &s) {
  if (r < 1 || r >= c.n || s < 1 || s >= c.n) return false;
  Z e = gost_e(c, alpha), v;
  if (!inv_mod(e, c.n, v)) return false;
  Z z1 = mod(s * v, c.n), z2 = mod(-(r * v), c.n);
  Pt C = add(c, mul(c, z1, G(c)), mul(c, z2, Q));
  if (C.inf) return false;
  return mod(C.x, c.n) == r;
}

// algorithm dispatch on the integer message representative t (ECDSA: e, GOST: alpha)
inline bool sign(const Curve &c, const Z &d, const Z &t, const Z &k, Z &r, Z &s) {
  return c.algo == ALGO_GOST ? gost_sign(c, d, t, k, r, s) : ecdsa_sign(c, d, mod(t, c.n), k, r, s);
}
// full standard verdict: the public key must be valid (SEC 1 4.1.4 presupposes a validated key;
// GOST 6.2 presupposes Q = dP with 0 < d < q)
inline bool verify(const Curve &c, const Pt &Q, const Z &t, const Z &r, const Z &s) {
  if (!valid_pubkey(c, Q)) return false;
  return c.algo == ALGO_GOST ? gost_verify_raw(c, Q, t, r, s) : ecdsa_verify_raw(c, Q, mod(t, c.n), r, s);
}

// ---------- ECDH (SEC 1 3.3.1 / 3.3.2) ----------
// false = "invalid" (product is the neutral element)
inline bool ecdh(const Curve &c, bool cofactor, const Z &d, const Pt &Q, Z &z) {
  Pt P = mul(c, d, Q);
  if (cofactor) P = mul(c, Z(c.h), P);
  if (P.inf) return false;
  z = P.x;
  return true;
}

inline Z hexz(const char *s) { return Z(s, 16); }

}  // namespace ecref
