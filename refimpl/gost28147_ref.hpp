// gost28147_ref.hpp -- textbook reference for GOST 28147-89 (RFC 5830): simple
// substitution (ECB) encryption / decryption of 64-bit blocks and the 16-round
// MAC ("imitovstavka") state, for an arbitrary substitution box.
// Written for C08; shares no code with /repo.
//
// Abstract model (RFC 5830 sections 5 and 8):
//   block = (N1, N2), key = K0..K7, S-box = 8 rows of 16 nibbles, row i
//   substitutes bits 4i..4i+3 of the 32-bit sum.
//   f(x)      = ROL11( S7[x>>28] .. S1[x>>4 & 15] S0[x & 15] )
//   round(K)  : (N1, N2) <- (N2 ^ f(N1 + K), N1)
//   encrypt   : K0..K7 three times, then K7..K0; the last round does not swap
//   decrypt   : K0..K7 once, then K7..K0 three times; last round does not swap
//   MAC       : state ^= block; 16 rounds K0..K7,K0..K7 (all with swap)
//
// Byte conventions:
//   LE ("GOST 28147-89 / RFC 4357 / libgcrypt"): K_i = LE32(key+4i),
//       N1 = LE32(blk), N2 = LE32(blk+4); MAC value = LE32(N1) || LE32(N2).
//   BE ("GOST R 34.12-2015 Magma"): K_i = BE32(key+4i), block is the 64-bit
//       big-endian number a1||a0: N2 = BE32(blk), N1 = BE32(blk+4).
//       Equivalent to LE with every key word byte-reversed and every block
//       byte-reversed as a whole (checked at anchor time).
//       MAC value for BE as the library under test serialises it:
//       BE32(N1) || BE32(N2) (anchored on the library's own GOST R 34.12-2015
//       A.2.4 "step 16" vector; there is no standard BE MAC format).
//
// The parameter-set tables below were transcribed mechanically and are NOT
// trusted by themselves: the driver validates each one behaviourally against
// libgcrypt's table selected by OID before any case is run.
#pragma once
#include <cstddef>
#include <cstdint>
#include <cstring>
#include <vector>

namespace gost_ref {

typedef std::vector<uint8_t> Bytes;

struct ParamSet {
  const char *name;   // liblcb array name without the _sbox suffix
  const char *oid;    // OID understood by libgcrypt (GCRYCTL_SET_SBOX)
  uint8_t s[8][16];
};

static const ParamSet kParamSets[] = {
  {"id_gostr3411_94_testparamset", "1.2.643.2.2.30.0", {
    { 4,10, 9, 2,13, 8, 0,14, 6,11, 1,12, 7,15, 5, 3},
    {14,11, 4,12, 6,13,15,10, 2, 3, 8, 1, 0, 7, 5, 9},
    { 5, 8, 1,13,10, 3, 4, 2,14,15,12, 7, 6, 0, 9,11},
    { 7,13,10, 1, 0, 8, 9,15,14, 4, 6,12,11, 2, 5, 3},
    { 6,12, 7, 1, 5,15,13, 8, 4,10, 9,14, 0, 3,11, 2},
    { 4,11,10, 0, 7, 2, 1,13, 3, 6, 8, 5, 9,12,15,14},
    {13,11, 4, 1, 3,15, 5, 9, 0,10,14, 7, 6, 8, 2,12},
    { 1,15,13, 0, 5, 7,10, 4, 9, 2, 3,14, 6,11, 8,12}}},
  {"id_gost28147_89_cryptopro_a_paramset", "1.2.643.2.2.31.1", {
    { 9, 6, 3, 2, 8,11, 1, 7,10, 4,14,15,12, 0,13, 5},
    { 3, 7,14, 9, 8,10,15, 0, 5, 2, 6,12,11, 4,13, 1},
    {14, 4, 6, 2,11, 3,13, 8,12,15, 5,10, 0, 7, 1, 9},
    {14, 7,10,12,13, 1, 3, 9, 0, 2,11, 4,15, 8, 5, 6},
    {11, 5, 1, 9, 8,13,15, 0,14, 4, 2, 3,12, 7,10, 6},
    { 3,10,13,12, 1, 2, 0,11, 7, 5, 9, 4, 8,15,14, 6},
    { 1,13, 2, 9, 7,10, 6, 0, 8,12, 4, 5,15, 3,11,14},
    {11,10,15, 5, 0,12,14, 8, 6, 2, 3, 9, 1, 7,13, 4}}},
  {"id_gost28147_89_cryptopro_b_paramset", "1.2.643.2.2.31.2", {
    { 8, 4,11, 1, 3, 5, 0, 9, 2,14,10,12,13, 6, 7,15},
    { 0, 1, 2,10, 4,13, 5,12, 9, 7, 3,15,11, 8, 6,14},
    {14,12, 0,10, 9, 2,13,11, 7, 5, 8,15, 3, 6, 1, 4},
    { 7, 5, 0,13,11, 6, 1, 2, 3,10,12,15, 4,14, 9, 8},
    { 2, 7,12,15, 9, 5,10,11, 1, 4, 0,13, 6, 8,14, 3},
    { 8, 3, 2, 6, 4,13,14,11,12, 1, 7,15,10, 0, 9, 5},
    { 5, 2,10,11, 9, 1,12, 3, 7, 4,13, 0, 6,15, 8,14},
    { 0, 4,11,14, 8, 3, 7, 1,10, 2, 9, 6,15,13, 5,12}}},
  {"id_gost28147_89_cryptopro_c_paramset", "1.2.643.2.2.31.3", {
    { 1,11,12, 2, 9,13, 0,15, 4, 5, 8,14,10, 7, 6, 3},
    { 0, 1, 7,13,11, 4, 5, 2, 8,14,15,12, 9,10, 6, 3},
    { 8, 2, 5, 0, 4, 9,15,10, 3, 7,12,13, 6,14, 1,11},
    { 3, 6, 0, 1, 5,13,10, 8,11, 2, 9, 7,14,15,12, 4},
    { 8,13,11, 0, 4, 5, 1, 2, 9, 3,12,14, 6,15,10, 7},
    {12, 9,11, 1, 8,14, 2, 4, 7, 3, 6, 5,10, 0,15,13},
    {10, 9, 6, 8,13,14, 2, 0,15, 3, 5,11, 4, 1,12, 7},
    { 7, 4, 0, 5,10, 2,15,14,12, 6, 1,11,13, 9, 3, 8}}},
  {"id_gost28147_89_cryptopro_d_paramset", "1.2.643.2.2.31.4", {
    {15,12, 2,10, 6, 4, 5, 0, 7, 9,14,13, 1,11, 8, 3},
    {11, 6, 3, 4,12,15,14, 2, 7,13, 8, 0, 5,10, 9, 1},
    { 1,12,11, 0,15,14, 6, 5,10,13, 4, 8, 9, 3, 7, 2},
    { 1, 5,14,12,10, 7, 0,13, 6, 2,11, 4, 9, 3,15, 8},
    { 0,12, 8, 9,13, 2,10,11, 7, 3, 6, 5, 4,14,15, 1},
    { 8, 0,15, 3, 2, 5,14,11, 1,10, 4, 7,12, 9,13, 6},
    { 3, 0, 6,15, 1,14, 9, 2,13, 8,12, 4,11,10, 5, 7},
    { 1,10, 6, 8,15,11, 0, 4,12, 3, 5, 9, 7,13, 2,14}}},
  {"id_tc26_gost_28147_param_z", "1.2.643.7.1.2.5.1.1", {
    {12, 4, 6, 2,10, 5,11, 9,14, 8,13, 7, 0, 3,15, 1},
    { 6, 8, 2, 3, 9,10, 5,12, 1,14, 4, 7,11,13, 0,15},
    {11, 3, 5, 8, 2,15,10,13,14, 1, 7, 4,12, 9, 6, 0},
    {12, 8, 2, 1,13, 4,15, 6, 7, 0,10, 5, 3,14, 9,11},
    { 7,15, 5,10, 8, 1, 6,13, 0, 9, 3,14,11, 4, 2,12},
    { 5,13,15, 6, 9, 2,12,10,11, 7, 8, 1, 4, 3,14, 0},
    { 8,14, 2, 5, 6, 9, 1,12,15, 4,11, 0,13,10, 3, 7},
    { 1, 7,14,13, 0, 5, 8, 3, 4,15,10, 6, 9,12,11, 2}}},
};
static const int kParamSetCount = (int)(sizeof(kParamSets) / sizeof(kParamSets[0]));

inline const ParamSet *find_paramset(const char *name) {
  for (int i = 0; i < kParamSetCount; i++)
    if (0 == strcmp(kParamSets[i].name, name)) return &kParamSets[i];
  return nullptr;
}

struct Cipher {
  uint32_t k[8];
  uint8_t s[8][16];

  // sbox128: 8 rows x 16 entries, row 0 substitutes the least significant nibble
  Cipher(const uint32_t key_words[8], const uint8_t *sbox128) {
    for (int i = 0; i < 8; i++) k[i] = key_words[i];
    for (int r = 0; r < 8; r++)
      for (int c = 0; c < 16; c++) s[r][c] = (uint8_t)(sbox128[r * 16 + c] & 15);
  }
  uint32_t f(uint32_t x) const {
    uint32_t y = 0;
    for (int i = 7; i >= 0; i--) y = (y << 4) | s[i][(x >> (4 * i)) & 15];
    return (y << 11) | (y >> 21);
  }
  void round(uint32_t &n1, uint32_t &n2, uint32_t key, bool swap) const {
    uint32_t t = n2 ^ f(n1 + key);
    if (swap) { n2 = n1; n1 = t; } else { n2 = t; }
  }
  static int enc_key_index(int r) { return r < 24 ? (r % 8) : (7 - (r % 8)); }
  static int dec_key_index(int r) { return r < 8 ? r : (7 - (r % 8)); }
  void encrypt(uint32_t &n1, uint32_t &n2) const {
    for (int r = 0; r < 32; r++) round(n1, n2, k[enc_key_index(r)], r != 31);
  }
  void decrypt(uint32_t &n1, uint32_t &n2) const {
    for (int r = 0; r < 32; r++) round(n1, n2, k[dec_key_index(r)], r != 31);
  }
  void mac_step(uint32_t &m1, uint32_t &m2, uint32_t n1, uint32_t n2) const {
    m1 ^= n1; m2 ^= n2;
    for (int r = 0; r < 16; r++) round(m1, m2, k[r % 8], true);
  }
};

inline uint32_t le32(const uint8_t *p) { return (uint32_t)p[0] | ((uint32_t)p[1] << 8) | ((uint32_t)p[2] << 16) | ((uint32_t)p[3] << 24); }
inline uint32_t be32(const uint8_t *p) { return (uint32_t)p[3] | ((uint32_t)p[2] << 8) | ((uint32_t)p[1] << 16) | ((uint32_t)p[0] << 24); }
inline void put_le32(uint8_t *p, uint32_t v) { p[0] = (uint8_t)v; p[1] = (uint8_t)(v >> 8); p[2] = (uint8_t)(v >> 16); p[3] = (uint8_t)(v >> 24); }
inline void put_be32(uint8_t *p, uint32_t v) { p[3] = (uint8_t)v; p[2] = (uint8_t)(v >> 8); p[1] = (uint8_t)(v >> 16); p[0] = (uint8_t)(v >> 24); }

inline Cipher make(bool be, const uint8_t key[32], const uint8_t *sbox128) {
  uint32_t w[8];
  for (int i = 0; i < 8; i++) w[i] = be ? be32(key + 4 * i) : le32(key + 4 * i);
  return Cipher(w, sbox128);
}
inline void load(bool be, const uint8_t *blk, uint32_t &n1, uint32_t &n2) {
  if (be) { n2 = be32(blk); n1 = be32(blk + 4); } else { n1 = le32(blk); n2 = le32(blk + 4); }
}
inline void store(bool be, uint8_t *blk, uint32_t n1, uint32_t n2) {
  if (be) { put_be32(blk, n2); put_be32(blk + 4, n1); } else { put_le32(blk, n1); put_le32(blk + 4, n2); }
}

// ECB over whole blocks (data.size() must be a multiple of 8)
inline Bytes ecb(bool be, bool decrypt, const uint8_t key[32], const uint8_t *sbox128, const Bytes &data) {
  Cipher c = make(be, key, sbox128);
  Bytes out(data.size());
  for (size_t o = 0; o + 8 <= data.size(); o += 8) {
    uint32_t n1, n2;
    load(be, &data[o], n1, n2);
    if (decrypt) c.decrypt(n1, n2); else c.encrypt(n1, n2);
    store(be, &out[o], n1, n2);
  }
  return out;
}

// 8-byte MAC value over whole blocks; empty input -> zero state.
inline Bytes mac8(bool be, const uint8_t key[32], const uint8_t *sbox128, const Bytes &data) {
  Cipher c = make(be, key, sbox128);
  uint32_t m1 = 0, m2 = 0;
  for (size_t o = 0; o + 8 <= data.size(); o += 8) {
    uint32_t n1, n2;
    load(be, &data[o], n1, n2);
    c.mac_step(m1, m2, n1, n2);
  }
  Bytes out(8);
  if (be) { put_be32(&out[0], m1); put_be32(&out[4], m2); } else { put_le32(&out[0], m1); put_le32(&out[4], m2); }
  return out;
}

}  // namespace gost_ref
