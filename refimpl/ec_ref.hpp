// ec_ref.hpp -- textbook affine group law on y^2 = x^3 + a x + b over F_p (GMP
// mpz_class), written from the definition (Hankerson/Menezes/Vanstone 3.1.2,
// SEC 1 2.2.1). Independent of liblcb: used as the oracle of C02 (and by C03/C09).
//
//   O + Q = Q, P + O = P
//   P + (-P) = O            (same x, y1 + y2 = 0 mod p; covers y = 0 doubling)
//   P + P   : lambda = (3 x^2 + a) / (2 y)
//   P + Q   : lambda = (y2 - y1) / (x2 - x1)
//   x3 = lambda^2 - x1 - x2,  y3 = lambda (x1 - x3) - y1
//   k P     : left-to-right double-and-add over the bits of k
#pragma once
#include <gmpxx.h>
#include <cstdint>
#include <string>
#include <vector>
#include <map>

namespace ecref {

struct Pt {
  bool inf = true;
  mpz_class x, y;
  Pt() {}
  Pt(const mpz_class &x_, const mpz_class &y_) : inf(false), x(x_), y(y_) {}
  bool operator==(const Pt &o) const { return inf ? o.inf : (!o.inf && x == o.x && y == o.y); }
  bool operator!=(const Pt &o) const { return !(*this == o); }
  bool operator<(const Pt &o) const {
    if (inf != o.inf) return inf;
    if (inf) return false;
    if (x != o.x) return x < o.x;
    return y < o.y;
  }
};

struct Curve {
  std::string name;
  mpz_class p, a, b, n;  // n = order of G
  Pt G;
  unsigned m = 0, t = 0, h = 1, flags = 0, algo = 0;
};

inline mpz_class mod(const mpz_class &v, const mpz_class &p) {
  mpz_class r;
  mpz_mod(r.get_mpz_t(), v.get_mpz_t(), p.get_mpz_t());
  return r;
}
inline mpz_class inv(const mpz_class &v, const mpz_class &p) {
  mpz_class r;
  if (mpz_invert(r.get_mpz_t(), v.get_mpz_t(), p.get_mpz_t()) == 0) return mpz_class(0);
  return r;
}
inline bool on_curve(const Curve &c, const Pt &P) {
  if (P.inf) return true;
  if (P.x < 0 || P.y < 0 || P.x >= c.p || P.y >= c.p) return false;
  return mod(P.y * P.y - (P.x * P.x * P.x + c.a * P.x + c.b), c.p) == 0;
}
inline bool nonsingular(const Curve &c) { return mod(4 * c.a * c.a * c.a + 27 * c.b * c.b, c.p) != 0; }
inline Pt neg(const Curve &c, const Pt &P) {
  if (P.inf) return P;
  return Pt(P.x, mod(c.p - P.y, c.p));
}
inline Pt add(const Curve &c, const Pt &P, const Pt &Q) {
  if (P.inf) return Q;
  if (Q.inf) return P;
  mpz_class lam;
  if (P.x == Q.x) {
    if (mod(P.y + Q.y, c.p) == 0) return Pt();  // opposite points, includes 2P with y = 0
    lam = mod((3 * P.x * P.x + c.a) * inv(mod(2 * P.y, c.p), c.p), c.p);
  } else {
    lam = mod((Q.y - P.y) * inv(mod(Q.x - P.x, c.p), c.p), c.p);
  }
  mpz_class x3 = mod(lam * lam - P.x - Q.x, c.p);
  mpz_class y3 = mod(lam * (P.x - x3) - P.y, c.p);
  return Pt(x3, y3);
}
inline Pt sub(const Curve &c, const Pt &P, const Pt &Q) { return add(c, P, neg(c, Q)); }
inline Pt dbl(const Curve &c, const Pt &P) { return add(c, P, P); }
inline Pt mul(const Curve &c, const mpz_class &k, const Pt &P) {
  Pt R;
  if (k < 0) return mul(c, -k, neg(c, P));
  size_t bits = k == 0 ? 0 : mpz_sizeinbase(k.get_mpz_t(), 2);
  for (size_t i = bits; i-- > 0;) {
    R = add(c, R, R);
    if (mpz_tstbit(k.get_mpz_t(), i)) R = add(c, R, P);
  }
  return R;
}
inline Pt twin(const Curve &c, const mpz_class &k, const Pt &P, const mpz_class &l, const Pt &Q) {
  return add(c, mul(c, k, P), mul(c, l, Q));
}

// square root mod an odd prime (Tonelli-Shanks); false when v is a non-residue
inline bool sqrt_mod(const mpz_class &v_, const mpz_class &p, mpz_class &r) {
  mpz_class v = mod(v_, p);
  if (v == 0) { r = 0; return true; }
  if (mpz_legendre(v.get_mpz_t(), p.get_mpz_t()) != 1) return false;
  mpz_class q = p - 1;
  unsigned s = 0;
  while (mpz_even_p(q.get_mpz_t())) { q >>= 1; s++; }
  mpz_class z = 2;
  while (mpz_legendre(z.get_mpz_t(), p.get_mpz_t()) != -1) z++;
  mpz_class c, t, R, e;
  mpz_powm(c.get_mpz_t(), z.get_mpz_t(), q.get_mpz_t(), p.get_mpz_t());
  mpz_powm(t.get_mpz_t(), v.get_mpz_t(), q.get_mpz_t(), p.get_mpz_t());
  e = (q + 1) / 2;
  mpz_powm(R.get_mpz_t(), v.get_mpz_t(), e.get_mpz_t(), p.get_mpz_t());
  unsigned M = s;
  while (t != 1) {
    unsigned i = 0;
    mpz_class tt = t;
    while (tt != 1) { tt = mod(tt * tt, p); i++; if (i == M) return false; }
    mpz_class bb = c;
    for (unsigned j = 0; j + i + 1 < M; j++) bb = mod(bb * bb, p);
    M = i;
    c = mod(bb * bb, p);
    t = mod(t * c, p);
    R = mod(R * bb, p);
  }
  r = R;
  return true;
}
// point with the given x (smaller/larger root by `odd`), false if x is not on the curve
inline bool lift_x(const Curve &c, const mpz_class &x, bool odd, Pt &out) {
  mpz_class y;
  if (!sqrt_mod(x * x * x + c.a * x + c.b, c.p, y)) return false;
  if (mpz_odd_p(y.get_mpz_t()) != odd && y != 0) y = c.p - y;
  out = Pt(mod(x, c.p), y);
  return true;
}

// ---- small curves (p < 2^31): whole-group enumeration and point orders in native arithmetic
struct SPt { bool inf; unsigned long x, y; };
inline unsigned long s_inv(unsigned long v, unsigned long p) {  // extended Euclid, v != 0 mod p
  long t = 0, nt = 1;
  long r = (long)p, nr = (long)(v % p);
  while (nr != 0) {
    long q = r / nr, tmp = t - q * nt;
    t = nt; nt = tmp;
    tmp = r - q * nr; r = nr; nr = tmp;
  }
  return (unsigned long)(t < 0 ? t + (long)p : t);
}
inline SPt s_add(unsigned long p, unsigned long a, const SPt &P, const SPt &Q) {
  if (P.inf) return Q;
  if (Q.inf) return P;
  unsigned __int128 lam;
  if (P.x == Q.x) {
    if ((P.y + Q.y) % p == 0) return SPt{true, 0, 0};
    lam = ((unsigned __int128)3 * P.x % p * P.x + a) % p * s_inv((2 * P.y) % p, p) % p;
  } else {
    lam = (unsigned __int128)((Q.y + p - P.y) % p) * s_inv((Q.x + p - P.x) % p, p) % p;
  }
  unsigned long x3 = (unsigned long)((lam * lam + 2 * (unsigned __int128)p - P.x - Q.x) % p);
  unsigned long y3 = (unsigned long)((lam * ((P.x + p - x3) % p) + p - P.y) % p);
  return SPt{false, x3, y3};
}
inline std::vector<Pt> enumerate(const Curve &c) {
  std::vector<Pt> g;
  g.push_back(Pt());
  unsigned long p = c.p.get_ui(), a = c.a.get_ui(), b = c.b.get_ui();
  std::vector<unsigned long> r1(p, p), r2(p, p);  // up to two roots of every residue
  for (unsigned long y = 0; y < p; y++) {
    unsigned long v = (unsigned long)(((unsigned __int128)y * y) % p);
    if (r1[v] == p) r1[v] = y; else r2[v] = y;
  }
  for (unsigned long x = 0; x < p; x++) {
    unsigned __int128 v = ((unsigned __int128)x * x) % p;
    v = (v * x + (unsigned __int128)a * x + b) % p;
    unsigned long vv = (unsigned long)v;
    if (r1[vv] != p) g.push_back(Pt(mpz_class(x), mpz_class(r1[vv])));
    if (r2[vv] != p) g.push_back(Pt(mpz_class(x), mpz_class(r2[vv])));
  }
  return g;
}
// order of P by stepping (small groups only)
inline unsigned long order_small(const Curve &c, const Pt &P, unsigned long limit) {
  if (P.inf) return 1;
  unsigned long p = c.p.get_ui(), a = c.a.get_ui();
  SPt S{false, P.x.get_ui(), P.y.get_ui()}, R = S;
  unsigned long k = 1;
  while (!R.inf && k <= limit) { R = s_add(p, a, R, S); k++; }
  return k;
}
// order of P given a multiple N of it with known prime factorisation
inline mpz_class order_from(const Curve &c, const Pt &P, const mpz_class &N, const std::vector<mpz_class> &primes) {
  mpz_class o = N;
  for (const mpz_class &q : primes) {
    while (mpz_divisible_p(o.get_mpz_t(), q.get_mpz_t())) {
      mpz_class t = o / q;
      if (!mul(c, t, P).inf) break;
      o = t;
    }
  }
  return o;
}

}  // namespace ecref
