// dns_ref.hpp -- spec-derived reference for DNS messages (property C15).
//
// RFC 1035 section 4.1 (message format: header 4.1.1, question 4.1.2, resource
// record 4.1.3, message compression 4.1.4), section 2.3.4 / 3.1 (size limits:
// labels 1..63 octets, names 255 octets or less on the wire) and RFC 6891
// section 6.1.2 (OPT pseudo-RR wire format; same layout as RFC 2671 4.3/4.6).
// Written from the RFC text only; shares no code with liblcb. The encoder never
// compresses (liblcb implements none); the decoder follows compression pointers.
//
// Names in "text form" are byte strings whose labels are separated by '.', with
// no trailing dot; the empty string is the root. Label bytes are arbitrary
// octets other than '.', exactly as the library's API takes them.
#pragma once
#include <cstdint>
#include <cstring>
#include <string>
#include <vector>

namespace dnsref {

typedef std::vector<uint8_t> Bytes;

enum NameClass {
  NAME_OK = 0,
  NAME_EMPTY_LABEL,  // "a..b", ".a", "a." : a zero-length label inside a non-root name
  NAME_LONG_LABEL,   // a label of more than 63 octets
  NAME_TOO_LONG      // every label fine, wire form longer than 255 octets (text longer than 253)
};

inline std::vector<Bytes> split_labels(const Bytes &name) {
  std::vector<Bytes> out;
  if (name.empty()) return out;  // root
  Bytes cur;
  for (uint8_t c : name) {
    if (c == '.') { out.push_back(cur); cur.clear(); }
    else cur.push_back(c);
  }
  out.push_back(cur);
  return out;
}

inline NameClass name_class(const Bytes &name) {
  std::vector<Bytes> ls = split_labels(name);
  size_t wire = 1;
  bool longl = false;
  for (const Bytes &l : ls) {
    if (l.empty()) return NAME_EMPTY_LABEL;
    if (l.size() > 63) longl = true;
    wire += 1 + l.size();
  }
  if (longl) return NAME_LONG_LABEL;
  if (wire > 255) return NAME_TOO_LONG;
  return NAME_OK;
}

// wire length of a name whose labels are all 1..63 octets (also used for the
// NAME_TOO_LONG probe class, where the encoding is still well defined)
inline size_t name_wire_len(const Bytes &name) {
  size_t wire = 1;
  for (const Bytes &l : split_labels(name)) wire += 1 + l.size();
  return wire;
}

// RFC 1035 3.1: sequence of labels, each a length octet followed by that many
// octets, terminated by the zero-length root label.
inline void encode_name(const Bytes &name, Bytes &out) {
  for (const Bytes &l : split_labels(name)) {
    out.push_back((uint8_t)l.size());
    out.insert(out.end(), l.begin(), l.end());
  }
  out.push_back(0);
}

inline void put16(Bytes &o, uint16_t v) { o.push_back((uint8_t)(v >> 8)); o.push_back((uint8_t)v); }
inline void put32(Bytes &o, uint32_t v) { put16(o, (uint16_t)(v >> 16)); put16(o, (uint16_t)v); }
inline uint16_t get16(const Bytes &m, size_t o) { return (uint16_t)((m[o] << 8) | m[o + 1]); }
inline uint32_t get32(const Bytes &m, size_t o) { return ((uint32_t)get16(m, o) << 16) | get16(m, o + 2); }

struct Question {
  Bytes name;
  uint16_t type = 0, klass = 0;
};
struct RR {
  Bytes name;
  uint16_t type = 0, klass = 0;
  uint32_t ttl = 0;
  Bytes rdata;
};
struct Message {
  uint8_t id[2] = {0, 0};     // wire octets 0..1
  uint8_t flags[2] = {0, 0};  // wire octets 2..3 (QR/Opcode/AA/TC/RD, RA/Z/RCODE)
  std::vector<Question> qd;
  std::vector<RR> an, ns, ar;
};

// RFC 6891 6.1.2/6.1.3: NAME = 0 (root), TYPE = 41, CLASS = requestor's UDP
// payload size, TTL = EXTENDED-RCODE (8) | VERSION (8) | DO + Z (16), RDLEN, RDATA.
inline RR make_opt(uint16_t udp_payload, uint8_t ext_rcode, uint8_t version, const uint8_t flags_wire[2], const Bytes &rdata) {
  RR r;
  r.type = 41;
  r.klass = udp_payload;
  r.ttl = ((uint32_t)ext_rcode << 24) | ((uint32_t)version << 16) | ((uint32_t)flags_wire[0] << 8) | flags_wire[1];
  r.rdata = rdata;
  return r;
}

inline void encode_question(const Question &q, Bytes &o) {
  encode_name(q.name, o);
  put16(o, q.type);
  put16(o, q.klass);
}
inline void encode_rr(const RR &r, Bytes &o) {
  encode_name(r.name, o);
  put16(o, r.type);
  put16(o, r.klass);
  put32(o, r.ttl);
  put16(o, (uint16_t)r.rdata.size());
  o.insert(o.end(), r.rdata.begin(), r.rdata.end());
}
inline size_t question_wire_len(const Question &q) { return name_wire_len(q.name) + 4; }
inline size_t rr_wire_len(const RR &r) { return name_wire_len(r.name) + 10 + r.rdata.size(); }

inline Bytes encode(const Message &m) {
  Bytes o;
  o.push_back(m.id[0]); o.push_back(m.id[1]);
  o.push_back(m.flags[0]); o.push_back(m.flags[1]);
  put16(o, (uint16_t)m.qd.size());
  put16(o, (uint16_t)m.an.size());
  put16(o, (uint16_t)m.ns.size());
  put16(o, (uint16_t)m.ar.size());
  for (const Question &q : m.qd) encode_question(q, o);
  for (const RR &r : m.an) encode_rr(r, o);
  for (const RR &r : m.ns) encode_rr(r, o);
  for (const RR &r : m.ar) encode_rr(r, o);
  return o;
}

// ---- decoder (RFC 1035 4.1.4: a name is a sequence of labels ending in a zero
// octet, or ending in a pointer, or a pointer; pointers are offsets from the
// start of the message). `consumed` = octets the name occupies at `off`.
inline bool decode_name(const Bytes &msg, size_t off, std::vector<Bytes> &labels, size_t &consumed, bool limit255 = true) {
  labels.clear();
  size_t pos = off, jumps = 0, wire = 1;
  bool jumped = false;
  consumed = 0;
  for (;;) {
    if (pos >= msg.size()) return false;
    uint8_t l = msg[pos];
    if ((l & 0xC0) == 0xC0) {
      if (pos + 1 >= msg.size()) return false;
      size_t tgt = ((size_t)(l & 0x3F) << 8) | msg[pos + 1];
      if (!jumped) consumed = pos + 2 - off;
      jumped = true;
      if (++jumps > 128) return false;  // loop
      if (tgt >= msg.size()) return false;
      pos = tgt;
      continue;
    }
    if ((l & 0xC0) != 0) return false;  // 0x40 / 0x80: not RFC 1035 label types
    pos++;
    if (l == 0) {
      if (!jumped) consumed = pos - off;
      return true;
    }
    if (pos + l > msg.size()) return false;
    wire += 1 + (size_t)l;
    if (limit255 && wire > 255) return false;
    labels.push_back(Bytes(msg.begin() + pos, msg.begin() + pos + l));
    pos += l;
  }
}
inline Bytes join_labels(const std::vector<Bytes> &labels) {
  Bytes o;
  for (size_t i = 0; i < labels.size(); i++) {
    if (i) o.push_back('.');
    o.insert(o.end(), labels[i].begin(), labels[i].end());
  }
  return o;
}

struct Layout {
  size_t qd_off = 0, an_off = 0, ns_off = 0, ar_off = 0, end = 0;
  std::vector<size_t> q_offs, rr_offs;       // start offset of every question / record (an, ns, ar in order)
  std::vector<size_t> rr_rdata_offs;
};

inline bool decode(const Bytes &msg, Message &m, Layout &lay, bool limit255 = true) {
  if (msg.size() < 12) return false;
  m = Message();
  lay = Layout();
  m.id[0] = msg[0]; m.id[1] = msg[1];
  m.flags[0] = msg[2]; m.flags[1] = msg[3];
  size_t cnt[4] = {get16(msg, 4), get16(msg, 6), get16(msg, 8), get16(msg, 10)};
  size_t pos = 12;
  lay.qd_off = pos;
  for (size_t i = 0; i < cnt[0]; i++) {
    Question q;
    std::vector<Bytes> ls;
    size_t used;
    lay.q_offs.push_back(pos);
    if (!decode_name(msg, pos, ls, used, limit255)) return false;
    q.name = join_labels(ls);
    pos += used;
    if (pos + 4 > msg.size()) return false;
    q.type = get16(msg, pos);
    q.klass = get16(msg, pos + 2);
    pos += 4;
    m.qd.push_back(q);
  }
  std::vector<RR> *secs[3] = {&m.an, &m.ns, &m.ar};
  size_t *offs[3] = {&lay.an_off, &lay.ns_off, &lay.ar_off};
  for (int s = 0; s < 3; s++) {
    *offs[s] = pos;
    for (size_t i = 0; i < cnt[s + 1]; i++) {
      RR r;
      std::vector<Bytes> ls;
      size_t used;
      lay.rr_offs.push_back(pos);
      if (!decode_name(msg, pos, ls, used, limit255)) return false;
      r.name = join_labels(ls);
      pos += used;
      if (pos + 10 > msg.size()) return false;
      r.type = get16(msg, pos);
      r.klass = get16(msg, pos + 2);
      r.ttl = get32(msg, pos + 4);
      size_t rdl = get16(msg, pos + 8);
      pos += 10;
      if (pos + rdl > msg.size()) return false;
      lay.rr_rdata_offs.push_back(pos);
      r.rdata.assign(msg.begin() + pos, msg.begin() + pos + rdl);
      pos += rdl;
      secs[s]->push_back(r);
    }
  }
  lay.end = pos;
  return true;
}

inline bool same(const Message &a, const Message &b) {
  auto qe = [](const Question &x, const Question &y) { return x.name == y.name && x.type == y.type && x.klass == y.klass; };
  auto re = [](const RR &x, const RR &y) {
    return x.name == y.name && x.type == y.type && x.klass == y.klass && x.ttl == y.ttl && x.rdata == y.rdata;
  };
  if (memcmp(a.id, b.id, 2) || memcmp(a.flags, b.flags, 2)) return false;
  if (a.qd.size() != b.qd.size() || a.an.size() != b.an.size() || a.ns.size() != b.ns.size() || a.ar.size() != b.ar.size()) return false;
  for (size_t i = 0; i < a.qd.size(); i++) if (!qe(a.qd[i], b.qd[i])) return false;
  for (size_t i = 0; i < a.an.size(); i++) if (!re(a.an[i], b.an[i])) return false;
  for (size_t i = 0; i < a.ns.size(); i++) if (!re(a.ns[i], b.ns[i])) return false;
  for (size_t i = 0; i < a.ar.size(); i++) if (!re(a.ar[i], b.ar[i])) return false;
  return true;
}

// ASCII case-insensitive comparison of names (RFC 1035 2.3.3 / RFC 4343)
inline bool name_eq_nocase(const Bytes &a, const Bytes &b) {
  if (a.size() != b.size()) return false;
  for (size_t i = 0; i < a.size(); i++) {
    uint8_t x = a[i], y = b[i];
    if (x >= 'A' && x <= 'Z') x |= 0x20;
    if (y >= 'A' && y <= 'Z') y |= 0x20;
    if (x != y) return false;
  }
  return true;
}

// ---- anchors: hand-assembled wire images taken from the RFC text.
// Returns an empty string when every anchor holds, else a description.
inline std::string anchors() {
  auto S = [](const char *s) { return Bytes((const uint8_t *)s, (const uint8_t *)s + strlen(s)); };
  // (a) a standard query "www.example.com IN A", id 0x1234, RD set, laid out octet by octet from 4.1.1/4.1.2
  static const uint8_t q1[] = {0x12, 0x34, 0x01, 0x00, 0x00, 0x01, 0x00, 0x00, 0x00, 0x00, 0x00, 0x00, 0x03, 'w', 'w', 'w',
                               0x07, 'e', 'x', 'a', 'm', 'p', 'l', 'e', 0x03, 'c', 'o', 'm', 0x00, 0x00, 0x01, 0x00, 0x01};
  Message m;
  m.id[0] = 0x12; m.id[1] = 0x34; m.flags[0] = 0x01; m.flags[1] = 0x00;
  Question q;
  q.name = S("www.example.com"); q.type = 1; q.klass = 1;
  m.qd.push_back(q);
  if (encode(m) != Bytes(q1, q1 + sizeof q1)) return "dns_ref: query anchor encoding differs";
  Message d;
  Layout lay;
  if (!decode(Bytes(q1, q1 + sizeof q1), d, lay) || !same(m, d) || lay.end != sizeof q1 || lay.an_off != sizeof q1)
    return "dns_ref: query anchor does not decode back";
  // (b) an answer with one A record (4.1.3): name, TYPE 1, CLASS 1, TTL 3600, RDLENGTH 4, 93.184.216.34
  RR a;
  a.name = S("a.bc"); a.type = 1; a.klass = 1; a.ttl = 3600; a.rdata = Bytes{93, 184, 216, 34};
  Bytes enc;
  encode_rr(a, enc);
  static const uint8_t r1[] = {0x01, 'a', 0x02, 'b', 'c', 0x00, 0x00, 0x01, 0x00, 0x01, 0x00, 0x00, 0x0e, 0x10, 0x00, 0x04, 93, 184, 216, 34};
  if (enc != Bytes(r1, r1 + sizeof r1)) return "dns_ref: RR anchor encoding differs";
  // (c) the compression example of RFC 1035 4.1.4: F.ISI.ARPA at 20, FOO.F.ISI.ARPA at 40 (pointer to 20),
  //     ARPA at 64 (pointer to 26), root at 92.
  Bytes msg(93, 0);
  const uint8_t at20[] = {1, 'F', 3, 'I', 'S', 'I', 4, 'A', 'R', 'P', 'A', 0};
  memcpy(&msg[20], at20, sizeof at20);
  const uint8_t at40[] = {3, 'F', 'O', 'O', 0xC0, 20};
  memcpy(&msg[40], at40, sizeof at40);
  msg[64] = 0xC0; msg[65] = 26;
  msg[92] = 0;
  std::vector<Bytes> ls;
  size_t used;
  if (!decode_name(msg, 20, ls, used) || join_labels(ls) != S("F.ISI.ARPA") || used != 12) return "dns_ref: 4.1.4 name at 20";
  if (!decode_name(msg, 40, ls, used) || join_labels(ls) != S("FOO.F.ISI.ARPA") || used != 6) return "dns_ref: 4.1.4 name at 40";
  if (!decode_name(msg, 64, ls, used) || join_labels(ls) != S("ARPA") || used != 2) return "dns_ref: 4.1.4 name at 64";
  if (!decode_name(msg, 92, ls, used) || !ls.empty() || used != 1) return "dns_ref: 4.1.4 root at 92";
  // (d) size limits (2.3.4)
  if (name_class(Bytes(63, 'x')) != NAME_OK || name_class(Bytes(64, 'x')) != NAME_LONG_LABEL) return "dns_ref: label limit";
  Bytes n253;
  for (int i = 0; i < 127; i++) { if (i) n253.push_back('.'); n253.push_back('a'); }
  if (n253.size() != 253 || name_class(n253) != NAME_OK || name_wire_len(n253) != 255) return "dns_ref: 253-octet name";
  n253.push_back('.'); n253.push_back('b');
  if (name_class(n253) != NAME_TOO_LONG) return "dns_ref: 255-octet name";
  if (name_class(S("a..b")) != NAME_EMPTY_LABEL || name_class(S("a.")) != NAME_EMPTY_LABEL || name_class(S(".a")) != NAME_EMPTY_LABEL)
    return "dns_ref: empty label";
  // (e) OPT pseudo-RR (RFC 6891 6.1.2): root name, type 41, class 4096, ext-rcode 0, version 0, DO set, no options
  const uint8_t doflag[2] = {0x80, 0x00};
  RR o = make_opt(4096, 0, 0, doflag, Bytes());
  enc.clear();
  encode_rr(o, enc);
  static const uint8_t o1[] = {0x00, 0x00, 0x29, 0x10, 0x00, 0x00, 0x00, 0x80, 0x00, 0x00, 0x00};
  if (enc != Bytes(o1, o1 + sizeof o1)) return "dns_ref: OPT anchor encoding differs";
  return "";
}

}  // namespace dnsref
