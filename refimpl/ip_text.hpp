// ip_text.hpp -- independent reference for IP address text (property C18).
//
// Written from the RFCs, never calls inet_ntop/inet_pton (those are what the
// code under test calls; the driver may use them only as a start-up cross-check
// of THIS file):
//   * dotted quad from 4 bytes (RFC 3986 IPv4address: dec-octet, no leading 0)
//   * RFC 5952 section 4 canonical IPv6 text from 16 bytes: lower case, no
//     leading zeros in a group, the longest run of >= 2 zero groups (first one
//     on a tie) replaced by "::", a single zero group is never compressed
//   * RFC 5952 section 5 mixed notation ("x:x:x:x:x:x:d.d.d.d") helper
//   * strict parsers for both families (RFC 4291 section 2.2 forms 1-3,
//     RFC 3986 dec-octet) that classify a token as VALID / INVALID / UNSPEC
//     (UNSPEC = spellings the RFCs leave to the implementation, e.g. leading
//     zeros in a dotted quad)
#pragma once
#include <cstdint>
#include <cstdio>
#include <cstring>
#include <string>
#include <vector>

namespace iptext {

inline std::string v4_text(const uint8_t a[4]) {
  char b[32];
  snprintf(b, sizeof b, "%u.%u.%u.%u", (unsigned)a[0], (unsigned)a[1], (unsigned)a[2], (unsigned)a[3]);
  return b;
}

inline void v6_groups(const uint8_t a[16], unsigned g[8]) {
  for (int i = 0; i < 8; i++) g[i] = ((unsigned)a[2 * i] << 8) | a[2 * i + 1];
}

// longest run of zero groups among g[0..n): first one on ties; len < 2 => none
inline void longest_zero_run(const unsigned *g, int n, int *start, int *len) {
  int bs = -1, bl = 0;
  for (int i = 0; i < n;) {
    if (g[i] != 0) { i++; continue; }
    int j = i;
    while (j < n && g[j] == 0) j++;
    if (j - i > bl) { bl = j - i; bs = i; }
    i = j;
  }
  if (bl < 2) { bs = -1; bl = 0; }
  *start = bs;
  *len = bl;
}

inline std::string hexgroup(unsigned v) {
  char b[8];
  snprintf(b, sizeof b, "%x", v);
  return b;
}

// canonical text of the first n groups (n = 8: whole address; n = 6: the hex
// part of the mixed notation). `tail` is appended after a ':' separator rule.
inline std::string v6_join(const unsigned *g, int n, const std::string &tail) {
  int zs, zl;
  longest_zero_run(g, n, &zs, &zl);
  std::string s;
  bool need_sep = false;  // previous output was a group (needs ':' before next item)
  for (int i = 0; i < n;) {
    if (i == zs) {
      s += "::";
      need_sep = false;
      i += zl;
      continue;
    }
    if (need_sep) s += ":";
    s += hexgroup(g[i]);
    need_sep = true;
    i++;
  }
  if (!tail.empty()) {
    if (need_sep) s += ":";
    s += tail;
  }
  return s;
}

// RFC 5952 section 4 canonical form (pure hexadecimal groups)
inline std::string v6_hex_canonical(const uint8_t a[16]) {
  unsigned g[8];
  v6_groups(a, g);
  return v6_join(g, 8, "");
}

// mixed notation, first six groups canonical, low 32 bits as dotted quad
inline std::string v6_mixed(const uint8_t a[16]) {
  unsigned g[8];
  v6_groups(a, g);
  return v6_join(g, 6, v4_text(a + 12));
}

// 1: IPv4-mapped ::ffff:0:0/96 (RFC 5952 section 5: mixed RECOMMENDED)
// 2: deprecated IPv4-compatible ::/96 other than :: and ::1 (platform convention)
// 0: no embedded IPv4 recognisable from the bits alone
inline int v6_embedded_v4_kind(const uint8_t a[16]) {
  static const uint8_t z[10] = {0};
  if (memcmp(a, z, 10) != 0) return 0;
  if (a[10] == 0xff && a[11] == 0xff) return 1;
  if (a[10] == 0 && a[11] == 0) {
    bool low_zero = (a[12] | a[13] | a[14]) == 0 && a[15] <= 1;
    return low_zero ? 0 : 2;
  }
  return 0;
}

// every text the property accepts as "the conventional form" of a
inline std::vector<std::string> v6_conventional(const uint8_t a[16]) {
  std::vector<std::string> r;
  r.push_back(v6_hex_canonical(a));
  if (v6_embedded_v4_kind(a) != 0) r.push_back(v6_mixed(a));
  return r;
}

enum Cls { INVALID = 0, VALID = 1, UNSPEC = 2 };

inline bool isdig(char c) { return c >= '0' && c <= '9'; }
inline int hexval(char c) {
  if (c >= '0' && c <= '9') return c - '0';
  if (c >= 'a' && c <= 'f') return c - 'a' + 10;
  if (c >= 'A' && c <= 'F') return c - 'A' + 10;
  return -1;
}

inline Cls parse_v4(const std::string &s, uint8_t out[4]) {
  size_t i = 0;
  bool unspec = false;
  for (int k = 0; k < 4; k++) {
    size_t st = i;
    unsigned v = 0;
    while (i < s.size() && isdig(s[i])) {
      v = v * 10 + (unsigned)(s[i] - '0');
      if (i - st >= 3) return INVALID;  // more than three digits
      i++;
    }
    size_t nd = i - st;
    if (nd == 0) return INVALID;
    if (v > 255) return INVALID;
    if (nd > 1 && s[st] == '0') unspec = true;  // leading zero: left to the implementation
    out[k] = (uint8_t)v;
    if (k < 3) {
      if (i >= s.size() || s[i] != '.') return INVALID;
      i++;
    }
  }
  if (i != s.size()) return INVALID;
  return unspec ? UNSPEC : VALID;
}

inline Cls parse_v6(const std::string &s, uint8_t out[16]) {
  // split at "::" (at most one)
  size_t dc = s.find("::");
  if (dc != std::string::npos && s.find("::", dc + 1) != std::string::npos) return INVALID;  // also catches ":::"
  auto split = [](const std::string &p, std::vector<std::string> &v) -> bool {
    v.clear();
    if (p.empty()) return true;
    size_t st = 0;
    for (;;) {
      size_t c = p.find(':', st);
      std::string tok = p.substr(st, c == std::string::npos ? std::string::npos : c - st);
      if (tok.empty()) return false;  // stray single ':' at an edge or doubled
      v.push_back(tok);
      if (c == std::string::npos) break;
      st = c + 1;
    }
    return true;
  };
  std::vector<std::string> head, tail;
  if (dc == std::string::npos) {
    if (!split(s, head)) return INVALID;
  } else {
    if (!split(s.substr(0, dc), head)) return INVALID;
    if (!split(s.substr(dc + 2), tail)) return INVALID;
  }
  std::vector<unsigned> hg, tg;
  bool unspec = false;
  auto conv = [&](std::vector<std::string> &toks, std::vector<unsigned> &g, bool last_part) -> bool {
    for (size_t i = 0; i < toks.size(); i++) {
      const std::string &t = toks[i];
      if (t.find('.') != std::string::npos) {
        if (!(last_part && i + 1 == toks.size())) return false;  // quad only as the final item
        uint8_t q[4];
        Cls c = parse_v4(t, q);
        if (c == INVALID) return false;
        if (c == UNSPEC) unspec = true;
        g.push_back(((unsigned)q[0] << 8) | q[1]);
        g.push_back(((unsigned)q[2] << 8) | q[3]);
        continue;
      }
      if (t.size() > 4) return false;
      unsigned v = 0;
      for (char ch : t) {
        int h = hexval(ch);
        if (h < 0) return false;
        v = v * 16 + (unsigned)h;
      }
      g.push_back(v);
    }
    return true;
  };
  bool have_tail = dc != std::string::npos;
  if (!conv(head, hg, !have_tail)) return INVALID;
  if (!conv(tail, tg, true)) return INVALID;
  size_t n = hg.size() + tg.size();
  if (!have_tail) {
    if (n != 8) return INVALID;
  } else {
    if (n > 7) return INVALID;  // "::" stands for at least one group
  }
  unsigned g[8] = {0};
  for (size_t i = 0; i < hg.size(); i++) g[i] = hg[i];
  for (size_t i = 0; i < tg.size(); i++) g[8 - tg.size() + i] = tg[i];
  for (int i = 0; i < 8; i++) {
    out[2 * i] = (uint8_t)(g[i] >> 8);
    out[2 * i + 1] = (uint8_t)(g[i] & 0xff);
  }
  return unspec ? UNSPEC : VALID;
}

}  // namespace iptext
