// radius_ref.hpp -- spec-derived reference for RADIUS packets (property C15).
//
//   RFC 2865 section 3   packet format, Request / Response Authenticator
//   RFC 2865 section 5.2 User-Password hiding
//   RFC 2866 section 3   Accounting Request / Response Authenticator
//   RFC 2869 section 5.14 Message-Authenticator (HMAC-MD5, attribute value taken as 16 zero octets)
//   RFC 5176 section 2.3 / 3.5 Disconnect / CoA Request and Response Authenticators, Message-Authenticator rules
//   RFC 5997 section 3   Status-Server (random authenticator, Message-Authenticator mandatory)
//   RFC 3579 section 3.2 EAP-Message requires Message-Authenticator
// over OpenSSL's MD5 / HMAC-MD5. Written from the RFC text; shares no code with
// liblcb. anchors() replays the RFC 2865 section 7 example packets, the RFC 1321
// MD5 test suite and the RFC 2202 HMAC-MD5 vectors.
#pragma once
#include <openssl/evp.h>
#include <openssl/hmac.h>
#include <cstdint>
#include <cstring>
#include <string>
#include <vector>

namespace radref {

typedef std::vector<uint8_t> Bytes;

inline Bytes md5(const Bytes &data) {
  Bytes out(16);
  unsigned int n = 16;
  EVP_Digest(data.data(), data.size(), out.data(), &n, EVP_md5(), nullptr);
  return out;
}
inline Bytes hmac_md5(const Bytes &key, const Bytes &data) {
  Bytes out(16);
  unsigned int n = 16;
  static const uint8_t empty = 0;
  HMAC(EVP_md5(), key.empty() ? (const void *)&empty : (const void *)key.data(), (int)key.size(), data.data(), data.size(),
       out.data(), &n);
  return out;
}
inline Bytes cat(std::initializer_list<Bytes> parts) {
  Bytes o;
  for (const Bytes &p : parts) o.insert(o.end(), p.begin(), p.end());
  return o;
}
inline Bytes sub(const Bytes &b, size_t off, size_t n) { return Bytes(b.begin() + off, b.begin() + off + n); }

// ---- RFC 2865 5.2 ----
// "the password is first padded at the end with nulls to a multiple of 16
// octets" (an empty password still occupies one 16-octet block: the attribute
// length is at least 18).
inline Bytes pad_password(const Bytes &pw) {
  Bytes p = pw;
  size_t n = p.empty() ? 16 : ((p.size() + 15) / 16) * 16;
  p.resize(n, 0);
  return p;
}
// b1 = MD5(S + RA), c(1) = p1 xor b1, b(i) = MD5(S + c(i-1)), c(i) = p(i) xor b(i)
inline Bytes hide_password(const Bytes &padded, const Bytes &secret, const Bytes &request_auth) {
  Bytes out, prev = request_auth;
  for (size_t j = 0; j < padded.size(); j += 16) {
    Bytes b = md5(cat({secret, prev}));
    Bytes c(16);
    for (size_t i = 0; i < 16; i++) c[i] = padded[j + i] ^ b[i];
    out.insert(out.end(), c.begin(), c.end());
    prev = c;
  }
  return out;
}
inline Bytes unhide_password(const Bytes &hidden, const Bytes &secret, const Bytes &request_auth) {
  Bytes out, prev = request_auth;
  for (size_t j = 0; j + 16 <= hidden.size(); j += 16) {
    Bytes b = md5(cat({secret, prev}));
    Bytes c = sub(hidden, j, 16);
    for (size_t i = 0; i < 16; i++) out.push_back(c[i] ^ b[i]);
    prev = c;
  }
  return out;
}

// ---- packet model ----
struct Attr {
  uint8_t type = 0;
  Bytes data;
};
enum { T_USER_PASSWORD = 2, T_CHAP_PASSWORD = 3, T_EAP_MESSAGE = 79, T_MSG_AUTH = 80 };

// authenticator classes by Code
enum AuthClass {
  AC_INVALID = 0,
  AC_RANDOM,    // 1 Access-Request, 12 Status-Server (RFC 5997), 13 Status-Client (reserved; liblcb documents it as "random")
  AC_REQ_ZERO,  // 4 Accounting-Request (RFC 2866 3), 40 Disconnect-Request, 43 CoA-Request (RFC 5176 2.3)
  AC_REPLY      // 2, 3, 11 (RFC 2865 3), 5 (RFC 2866 3), 41, 42, 44, 45 (RFC 5176 2.3)
};
inline AuthClass auth_class(uint8_t code) {
  switch (code) {
  case 1: case 12: case 13: return AC_RANDOM;
  case 4: case 40: case 43: return AC_REQ_ZERO;
  case 2: case 3: case 5: case 11: case 41: case 42: case 44: case 45: return AC_REPLY;
  }
  return AC_INVALID;
}

inline Bytes encode_packet(uint8_t code, uint8_t id, const Bytes &auth16, const std::vector<Attr> &attrs) {
  Bytes o;
  o.push_back(code);
  o.push_back(id);
  o.push_back(0); o.push_back(0);
  o.insert(o.end(), auth16.begin(), auth16.end());
  for (const Attr &a : attrs) {
    o.push_back(a.type);
    o.push_back((uint8_t)(a.data.size() + 2));
    o.insert(o.end(), a.data.begin(), a.data.end());
  }
  o[2] = (uint8_t)(o.size() >> 8);
  o[3] = (uint8_t)o.size();
  return o;
}

struct Located {
  size_t off;  // offset of the attribute's Type octet
  Attr a;
};
// structural walk of the first `len` octets (RFC 2865 3: Length covers Code..Attributes;
// octets outside the range of the Length field are padding and ignored; each attribute
// Length counts Type and Length octets, so it is at least 2 and must end inside the packet)
inline bool walk(const Bytes &pkt, size_t size, std::vector<Located> &out, size_t &len) {
  out.clear();
  if (size < 20 || pkt.size() < size) return false;
  len = ((size_t)pkt[2] << 8) | pkt[3];
  if (len < 20 || len > 4096 || len > size) return false;
  size_t pos = 20;
  while (pos < len) {
    if (len - pos < 2) return false;
    size_t al = pkt[pos + 1];
    if (al < 2 || pos + al > len) return false;
    Located l;
    l.off = pos;
    l.a.type = pkt[pos];
    l.a.data.assign(pkt.begin() + pos + 2, pkt.begin() + pos + al);
    out.push_back(l);
    pos += al;
  }
  return true;
}

// MD5(Code + ID + Length + auth_field + Attributes + Secret) over the first `len` octets
inline Bytes packet_md5(const Bytes &pkt, size_t len, const Bytes &auth_field, const Bytes &secret) {
  return md5(cat({sub(pkt, 0, 4), auth_field, sub(pkt, 20, len - 20), secret}));
}
// RFC 2869 5.14: HMAC-MD5(Type, Identifier, Length, Request Authenticator, Attributes), the
// Message-Authenticator value at ma_data_off taken as sixteen octets of zero
inline Bytes message_authenticator(const Bytes &pkt, size_t len, size_t ma_data_off, const Bytes &auth_field, const Bytes &secret) {
  Bytes m = cat({sub(pkt, 0, 4), auth_field, sub(pkt, 20, len - 20)});
  for (size_t i = 0; i < 16; i++) m[ma_data_off + i] = 0;
  return hmac_md5(secret, m);
}

enum Decision { ACCEPT = 0, REJECT = 1, UNDEFINED = 2 };

// What a receiver that follows the RFCs does with `size` received octets.
// req_auth: Request Authenticator of the request this packet answers (replies only; nullptr = unknown).
// req_code: Code of that request (0 = unknown).
inline Decision verify(const Bytes &pkt, size_t size, const Bytes &secret, const Bytes *req_auth, uint8_t req_code) {
  std::vector<Located> at;
  size_t len = 0;
  if (!walk(pkt, size, at, len)) return REJECT;  // "silently discarded"
  uint8_t code = pkt[0];
  AuthClass ac = auth_class(code);
  if (ac == AC_INVALID) return REJECT;
  Bytes own = sub(pkt, 4, 16), zero(16, 0);
  if (ac == AC_REPLY && (!req_auth || req_auth->size() != 16)) return UNDEFINED;
  bool undefined = false;
  for (const Located &l : at) {
    if (l.a.type != T_MSG_AUTH) continue;
    if (l.a.data.size() != 16) return REJECT;  // RFC 2869 5.14: Length is 18
    Bytes a;
    if (ac == AC_RANDOM) a = own;            // RFC 2869 5.14 (Access-Request), RFC 5997 3 (Status-Server)
    else if (ac == AC_REQ_ZERO) {
      a = zero;                               // RFC 5176 3.5; applied to Accounting-Request too (RFC 2869 defines no
                                              // accounting use; liblcb documents "set the authenticator to zero" for it)
    } else {
      if (code == 5 && req_code != 12) { undefined = true; break; }  // only defined for a Status-Server exchange (RFC 5997 3)
      a = *req_auth;                          // RFC 2869 5.14, RFC 5176 3.5
    }
    if (message_authenticator(pkt, len, l.off + 2, a, secret) != l.a.data) return REJECT;
    break;  // first occurrence
  }
  if (ac == AC_REQ_ZERO && packet_md5(pkt, len, zero, secret) != own) return REJECT;       // RFC 2866 3, RFC 5176 2.3
  if (ac == AC_REPLY && packet_md5(pkt, len, *req_auth, secret) != own) return REJECT;     // RFC 2865 3, RFC 2866 3, RFC 5176 2.3
  return undefined ? UNDEFINED : ACCEPT;
}

// What a sender that follows the RFCs puts on the wire for a packet whose attributes are final:
// hides User-Password (Access-Request only), fills Message-Authenticator if present, then the authenticator.
// `auth_field_in`: for AC_RANDOM the random Request Authenticator; for AC_REPLY the Request Authenticator of
// the request being answered; ignored for AC_REQ_ZERO. Returns false when the RFCs do not define the result.
inline bool sign(Bytes &pkt, const Bytes &secret, const Bytes &auth_field_in, uint8_t req_code) {
  std::vector<Located> at;
  size_t len = 0;
  if (!walk(pkt, pkt.size(), at, len) || len != pkt.size()) return false;
  uint8_t code = pkt[0];
  AuthClass ac = auth_class(code);
  if (ac == AC_INVALID) return false;
  Bytes zero(16, 0);
  Bytes a = (ac == AC_REQ_ZERO) ? zero : auth_field_in;
  for (const Located &l : at) {
    if (l.a.type != T_USER_PASSWORD) continue;
    if (code != 1) return false;  // RFC 2865 5.44 / RFC 2866 5.13: User-Password occurs in Access-Request only
    if (l.a.data.size() % 16 || l.a.data.size() < 16 || l.a.data.size() > 128) return false;
    Bytes h = hide_password(l.a.data, secret, a);
    memcpy(&pkt[l.off + 2], h.data(), h.size());
    break;
  }
  for (const Located &l : at) {
    if (l.a.type != T_MSG_AUTH) continue;
    if (l.a.data.size() != 16) return false;
    if (code == 5 && req_code != 12) return false;  // undefined, see verify()
    memcpy(&pkt[4], a.data(), 16);
    Bytes m = message_authenticator(pkt, len, l.off + 2, a, secret);
    memcpy(&pkt[l.off + 2], m.data(), 16);
    break;
  }
  if (ac == AC_RANDOM) memcpy(&pkt[4], a.data(), 16);
  else {
    Bytes r = packet_md5(pkt, len, a, secret);
    memcpy(&pkt[4], r.data(), 16);
  }
  return true;
}

inline Bytes unhex(const char *s) {
  Bytes b;
  auto v = [](char c) { return c >= '0' && c <= '9' ? c - '0' : c >= 'a' && c <= 'f' ? c - 'a' + 10 : c >= 'A' && c <= 'F' ? c - 'A' + 10 : -1; };
  int hi = -1;
  for (; *s; s++) {
    int x = v(*s);
    if (x < 0) continue;
    if (hi < 0) hi = x; else { b.push_back((uint8_t)(hi * 16 + x)); hi = -1; }
  }
  return b;
}
inline Bytes str(const char *s) { return Bytes((const uint8_t *)s, (const uint8_t *)s + strlen(s)); }

// Returns "" when every anchor holds.
inline std::string anchors() {
  // RFC 1321 A.5 test suite
  if (md5(Bytes()) != unhex("d41d8cd98f00b204e9800998ecf8427e")) return "radius_ref: MD5(\"\")";
  if (md5(str("abc")) != unhex("900150983cd24fb0d6963f7d28e17f72")) return "radius_ref: MD5(abc)";
  if (md5(str("12345678901234567890123456789012345678901234567890123456789012345678901234567890")) !=
      unhex("57edf4a22be3c955ac49da2e2107b67a")) return "radius_ref: MD5(1234567890 x8)";
  // RFC 2202 section 2, HMAC-MD5 test cases 1, 2, 3 and 6 (key longer than the block)
  if (hmac_md5(Bytes(16, 0x0b), str("Hi There")) != unhex("9294727a3638bb1c13f48ef8158bfc9d")) return "radius_ref: HMAC-MD5 tc1";
  if (hmac_md5(str("Jefe"), str("what do ya want for nothing?")) != unhex("750c783e6ab0b503eaa86e310a5db738")) return "radius_ref: HMAC-MD5 tc2";
  if (hmac_md5(Bytes(16, 0xaa), Bytes(50, 0xdd)) != unhex("56be34521d144c88dbb8c733f0e8b3f6")) return "radius_ref: HMAC-MD5 tc3";
  if (hmac_md5(Bytes(80, 0xaa), str("Test Using Larger Than Block-Size Key - Hash Key First")) != unhex("6b1ab7fe4bd7bf8f0b62e6ce61b9d0cd"))
    return "radius_ref: HMAC-MD5 tc6";
  // RFC 2865 7.1: user "nemo", password "arctangent", shared secret "xyzzy5461"
  Bytes secret = str("xyzzy5461");
  Bytes req = unhex("01 00 00 38 0f 40 3f 94 73 97 80 57 bd 83 d5 cb 98 f4 22 7a 01 06 6e 65 6d 6f 02 12 0d be 70 8d"
                    "93 d4 13 ce 31 96 e4 3f 78 2a 0a ee 04 06 c0 a8 01 10 05 06 00 00 00 03");
  Bytes rsp = unhex("02 00 00 26 86 fe 22 0e 76 24 ba 2a 10 05 f6 bf 9b 55 e0 b2 06 06 00 00 00 01 0f 06 00 00 00 00"
                    "0e 06 c0 a8 01 03");
  if (req.size() != 56 || rsp.size() != 38) return "radius_ref: 7.1 transcription length";
  Bytes ra = sub(req, 4, 16);
  if (hide_password(pad_password(str("arctangent")), secret, ra) != sub(req, 28, 16)) return "radius_ref: 7.1 User-Password hiding";
  if (unhide_password(sub(req, 28, 16), secret, ra) != pad_password(str("arctangent"))) return "radius_ref: 7.1 User-Password un-hiding";
  // build the request from its attributes and sign it
  std::vector<Attr> at;
  Attr a;
  a.type = 1; a.data = str("nemo"); at.push_back(a);
  a.type = 2; a.data = pad_password(str("arctangent")); at.push_back(a);
  a.type = 4; a.data = Bytes{192, 168, 1, 16}; at.push_back(a);
  a.type = 5; a.data = Bytes{0, 0, 0, 3}; at.push_back(a);
  Bytes built = encode_packet(1, 0, ra, at);
  if (!sign(built, secret, ra, 0) || built != req) return "radius_ref: 7.1 Access-Request does not rebuild";
  if (verify(req, req.size(), secret, nullptr, 0) != ACCEPT) return "radius_ref: 7.1 Access-Request verdict";
  // the Access-Accept: Response Authenticator over the request's authenticator
  if (packet_md5(rsp, rsp.size(), ra, secret) != sub(rsp, 4, 16)) return "radius_ref: 7.1 Response Authenticator";
  if (verify(rsp, rsp.size(), secret, &ra, 1) != ACCEPT) return "radius_ref: 7.1 Access-Accept verdict";
  Bytes bad = rsp;
  bad[25] ^= 1;
  if (verify(bad, bad.size(), secret, &ra, 1) != REJECT) return "radius_ref: corrupted 7.1 Access-Accept accepted";
  if (verify(rsp, rsp.size(), str("xyzzy5462"), &ra, 1) != REJECT) return "radius_ref: wrong secret accepted";
  at.clear();
  a.type = 6; a.data = Bytes{0, 0, 0, 1}; at.push_back(a);
  a.type = 15; a.data = Bytes{0, 0, 0, 0}; at.push_back(a);
  a.type = 14; a.data = Bytes{192, 168, 1, 3}; at.push_back(a);
  built = encode_packet(2, 0, ra, at);
  if (!sign(built, secret, ra, 1) || built != rsp) return "radius_ref: 7.1 Access-Accept does not rebuild";
  // RFC 2865 7.2: CHAP user "flopsy", same secret
  Bytes req2 = unhex("01 01 00 47 2a ee 86 f0 8d 0d 55 96 9c a5 97 8e 0d 33 67 a2 01 08 66 6c 6f 70 73 79 03 13 16 e9"
                     "75 57 c3 16 18 58 95 f2 93 ff 63 44 07 72 75 04 06 c0 a8 01 10 05 06 00 00 00 14 06 06 00 00 00"
                     "02 07 06 00 00 00 01");
  Bytes rsp2 = unhex("02 01 00 38 15 ef bc 7d ab 26 cf a3 dc 34 d9 c0 3c 86 01 a4 06 06 00 00 00 02 07 06 00 00 00 01"
                     "08 06 ff ff ff fe 0a 06 00 00 00 02 0d 06 00 00 00 01 0c 06 00 00 05 dc");
  if (req2.size() != 71 || rsp2.size() != 56) return "radius_ref: 7.2 transcription length";
  Bytes ra2 = sub(req2, 4, 16);
  if (verify(rsp2, rsp2.size(), secret, &ra2, 1) != ACCEPT) return "radius_ref: 7.2 Access-Accept verdict";
  return "";
}

}  // namespace radref
