#!/usr/bin/env python3
"""Writes the prompts for one batch of blind seeded-change agents (DESIGN.md section 10).

usage: tools_seedprompts.py <prefix> <outdir> name=focus-hint-file-or-text ...
  <prefix>   scratch prefix: the agent works in /tmp/<prefix>-<name>, writes to /tmp/<prefix>-<name>-out
  <outdir>   where the prompt files go (<name>.txt)
  name       property id + optional letter (C05g, C12); the first three characters select the property

The prompt contains only the property (title, statement, scope, anchored files), the rules of the exercise and one-line
summaries of every earlier seeded change of the same property (so that the agent looks for a new mechanism). Nothing
about /verif, its checks or its harness is given away. The worktrees themselves are created by the caller:
  git -C /repo worktree add --detach /tmp/<prefix>-<name> HEAD
"""
import glob, json, os, sys

DEFS = ("-DHAVE_ACCEPT4 -DHAVE_EXPLICIT_BZERO -DHAVE_MEMMEM -DHAVE_MEMRCHR -DHAVE_PIPE2 -DHAVE_POSIX_SPAWN_FILE_ACTIONS_ADDCLOSEFROM_NP "
        "-DHAVE_PTHREAD_SETNAME_NP -DHAVE_REALLOCARRAY -DHAVE_SOCK_CLOEXEC -DHAVE_SOCK_NONBLOCK -DHAVE_STRNCASECMP -DLINUX -D_GNU_SOURCE -D__USE_GNU=1")

TEMPLATE = """You are given a C library (rozhuk-im/liblcb) in a scratch git worktree at {wt} (work ONLY there and in the output directory {out}; never touch /repo or /verif, and do not read anything under /verif). There is no network.

The library is supposed to have this property:

  Title: {title}
  Statement: {statement}
  Scope: {scope}
  Anchored in: {files}

Your job: produce ONE small, realistic source change (the kind of slip a maintainer could make in a refactoring or an "optimisation") to the library code in {wt} that BREAKS this property, while
  (1) the library still compiles, and the existing test suite still passes: build and run it with
        cmake -G Ninja -S {wt} -B {wt}/_build -DENABLE_LIBLCB_TESTS=1 && cmake --build {wt}/_build && ctest --test-dir {wt}/_build -j2 --timeout 900
      (4 tests; test_threadpool needs about 80-90 s; run it on the unmodified tree first to see it pass, then again with your change);
  (2) the breakage needs something SPECIFIC to manifest - a particular interleaving, a fault at a particular point, a multi-step sequence of operations, an unusual input value or length, a particular build configuration, or two cooperating sites that each look fine alone - not something ordinary use would expose at once;
  (3) you provide a demonstration: a small standalone C program (or shell script building one) that uses the library's public API, FAILS (non-zero exit / prints FAIL) with your change applied and PASSES on the unmodified tree. Show both runs. Compile flags used by the project on this platform: {defs} -I{wt}/include (headers under include/ are mostly header-only; .c files are under src/).

Earlier exercises already produced these changes (do NOT repeat their sites or their ideas): {earlier}. {focus}

Read the relevant code first so the change is plausible and subtle. Prefer changes inside the files named above. Do not modify tests.

Write into {out}/:
  - patch.diff   : `git -C {wt} diff` of your change (must apply with `git apply` on a clean checkout of the same commit)
  - demo.c (and/or demo.sh) : the demonstration, with the exact build+run command in a comment at the top; name every library .c file it needs as src/....c in that comment
  - meta.json    : {{"property": "{pid}", "summary": "...what was changed...", "needs": "...what specific condition makes it manifest...", "ran": ["commands you ran and their outcomes, incl. ctest with and without the change and the demo with and without the change"]}}
When finished, leave the worktree with your change applied (do not commit). Your final message: a short summary of the change, what it needs to manifest, and the observed results of ctest and the demo with/without the change.

Note: the machine is shared; test_threadpool contains a few fixed-sleep timing asserts that can fail under load on the unmodified tree too - if that happens, simply re-run ctest once the load is lower and record both runs. Do not use `git stash` (the stash is shared between worktrees); to get unmodified sources use `git archive HEAD | tar -x -C <dir>`.
"""


def main():
    prefix, outdir = sys.argv[1], sys.argv[2]
    os.makedirs(outdir, exist_ok=True)
    props = {}
    for line in open("/verif/properties.jsonl"):
        d = json.loads(line)
        props[d["id"]] = d
    for arg in sys.argv[3:]:
        name, _, focus = arg.partition("=")
        if os.path.exists(focus):
            focus = open(focus).read().strip()
        pid = name[:3]
        p = props[pid]
        earlier = []
        for m in sorted(glob.glob("/verif/seeded/%s*/meta.json" % pid)):
            try:
                earlier.append(json.load(open(m)).get("summary", "")[:110].replace("\n", " "))
            except Exception:
                pass
        wt = "/tmp/%s-%s" % (prefix, name)
        txt = TEMPLATE.format(wt=wt, out=wt + "-out", title=p["title"], statement=p["statement"], scope=p["quantifier"]["text"],
                              files=", ".join(p["anchors"]["files"]), defs=DEFS, earlier="; ".join(earlier) or "(none)", focus=focus, pid=pid)
        open(os.path.join(outdir, name + ".txt"), "w").write(txt)
        print(name, len(txt))


if __name__ == "__main__":
    main()
